import chfix
import ast
from copy import deepcopy
from doctrans.ast_utils import annotate_ancestry
from doctrans.sync_properties import sync_property

def mkfn(name, argnames, annots=None):
    annots = annots or [None]*len(argnames)
    return ast.FunctionDef(name=name, args=ast.arguments(posonlyargs=[], args=[ast.arg(arg=a, annotation=an) for a, an in zip(argnames, annots)], vararg=None, kwonlyargs=[], kw_defaults=[], kwarg=None, defaults=[]), body=[ast.Pass()], decorator_list=[], returns=None, type_params=[])
def mkcls(name, body):
    return ast.ClassDef(name=name, bases=[], keywords=[], body=body, decorator_list=[], type_params=[])
def ann(name, typ):
    return ast.AnnAssign(target=ast.Name(name, ast.Store()), annotation=ast.Name(typ, ast.Load()), value=None, simple=1)

def sig(node):
    """structural fingerprint tolerant of symbolic strings (nested tuples)"""
    if isinstance(node, ast.AST):
        return (type(node).__name__,) + tuple((f, sig(getattr(node, f, None))) for f in node._fields)
    if isinstance(node, list):
        return tuple(sig(x) for x in node)
    return node

def h_sync(ia: str, it: str, f: str, x: str, g: str, y: str, s0: str, s1: str) -> bool:
    """
    pre: all(1 <= len(t) <= 2 for t in (ia, it, f, x, g, y, s0, s1))
    pre: f != g
    post: _
    """
    inp = ast.Module(body=[ann(ia, it)], type_ignores=[])
    out = ast.Module(body=[mkfn(f, [x], [ast.Name("int", ast.Load())]), mkfn(g, [y], [ast.Name("str", ast.Load())])], type_ignores=[])
    annotate_ancestry(out)
    before = sig(out)
    try:
        res = sync_property(False, ia, inp, "in.py", s0 + "." + s1, None, out)
    except (AssertionError, NotImplementedError):
        # unresolved address must be an error and must not have changed anything
        return sig(out) == before and not ((s0 == f and s1 == x) or (s0 == g and s1 == y))
    after = sig(res)
    # expected: exactly the addressed arg replaced by arg named ia annotated it
    exp = list(before)
    def expect(fn_name, arg_name, other_first):
        return None
    ok_f = (s0 == f and s1 == x); ok_g = (s0 == g and s1 == y)
    if not (ok_f or ok_g):
        return False  # silently changed something although the address does not resolve
    want = ast.Module(body=[mkfn(f, [ia if ok_f else x], [ast.Name(it if ok_f else "int", ast.Load())]), mkfn(g, [y if ok_f or not ok_g else ia], [ast.Name("str" if ok_f or not ok_g else it, ast.Load())])], type_ignores=[])
    return after == sig(want)
