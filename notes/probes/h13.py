import chfix
from collections import OrderedDict
from collections.abc import KeysView
from typing import List
from doctrans.pure_utils import fill
from doctrans.parser_utils import ir_merge

def h_fill(hole: str) -> bool:
    """
    pre: 1 <= len(hole) <= 3
    pre: all(c in 'ab ' for c in hole)
    post: _
    """
    s = ":param a: some words here " + hole + " and more words"
    out = fill(s)
    return " ".join(out.split()) == " ".join(s.split())

class AnyOrderSet:
    """a set whose iteration order is chosen by the solver"""
    def __init__(self, items, picks):
        self.items = list(items); self.picks = picks
    def __iter__(self):
        rest = list(self.items)
        k = 0
        while rest:
            i = self.picks[k] if k < len(self.picks) else 0
            k += 1
            if not (0 <= i < len(rest)): i = 0
            yield rest.pop(i)
    def __contains__(self, x): return x in self.items
    def __len__(self): return len(self.items)

class NDKeys(KeysView):
    def __init__(self, m, picks): super().__init__(m); self._picks = picks
    def __sub__(self, other): return AnyOrderSet([k for k in self._mapping if k not in other._mapping], self._picks)
    def __and__(self, other): return AnyOrderSet([k for k in self._mapping if k in other._mapping], self._picks)

class NDParams(OrderedDict):
    _picks = ()
    def keys(self): return NDKeys(self, self._picks)

def h_merge(p0: int, p1: int, p2: int) -> bool:
    """
    pre: 0 <= p0 <= 2 and 0 <= p1 <= 1 and p2 == 0
    post: _
    """
    tgt = NDParams([("b", {"doc": "the b"})]); tgt._picks = (p0, p1, p2)
    oth = NDParams([("a", {"typ": "int"}), ("b", {"typ": "str"}), ("c", {"typ": "int"}), ("d", {})]); oth._picks = (p0, p1, p2)
    t = {"params": tgt, "returns": None}
    o = {"params": oth, "returns": None}
    ir_merge(t, o)
    names = list(t["params"])
    # relative order of the signature-only names must be source order
    rest = [n for n in names if n != "b"]
    return rest == ["a", "c", "d"]
