import chfix
def h_a(s: str) -> bool:
    """
    pre: len(s) == 1
    post: _
    """
    v = '"' + s + '"'
    return s == v[1:-1]

def h_b(s: str) -> bool:
    """
    pre: len(s) == 1
    post: _
    """
    v = '"' + s + '"'
    return v[1:2] == s

def h_c(s: str) -> bool:
    """
    pre: len(s) == 1
    post: _
    """
    v = s + '"'
    return v[:-1] == s

def h_d(s: str) -> bool:
    """
    pre: len(s) == 1
    post: _
    """
    v = '"' + s
    return v[1:] == s

def h_e(s: str) -> str:
    """
    pre: len(s) == 1
    post: _ == ''
    """
    v = '"' + s + '"'
    w = v[1:-1]
    return '' if w == s else type(w).__mro__[0].__name__ + "/" + type(s).__mro__[0].__name__
