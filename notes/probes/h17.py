import chfix
try:
    import meta
except Exception:
    pass
import ast
from argparse import Namespace
from collections import OrderedDict
from copy import deepcopy
from doctrans import emit, parse
import doctrans.__main__ as M
import doctrans.conformance as cf
from doctrans.source_transformer import to_code

def h_int_cls(d: int) -> bool:
    """
    pre: -1000000 <= d <= 1000000
    post: _
    """
    ir = {"name": None, "type": "static", "doc": "Summary", "params": OrderedDict([("a", {"typ": "int", "doc": "the a", "default": d})]), "returns": None}
    node = emit.class_(deepcopy(ir), class_name="C", emit_default_doc=False)
    back = parse.class_(node)
    v = back["params"]["a"].get("default")
    return type(v) is int and v == d

def h_int_cls_text(d: int) -> bool:
    """
    pre: -3 <= d <= 3
    post: _
    """
    ir = {"name": None, "type": "static", "doc": "Summary", "params": OrderedDict([("a", {"typ": "int", "doc": "the a", "default": d})]), "returns": None}
    node = emit.class_(deepcopy(ir), class_name="C", emit_default_doc=False)
    node = ast.parse(to_code(node)).body[0]
    back = parse.class_(node)
    v = back["params"]["a"].get("default")
    return type(v) is int and v == d

class StubParser:
    def __init__(self, ns): self.ns = ns
    def parse_args(self, args=None): return self.ns
    def error(self, msg): raise SystemExit(2)

class P:
    def __init__(self, existing): self.existing = existing
    def isfile(self, n): return n in self.existing
    def realpath(self, n): return n
    def expanduser(self, n): return n

def h_main(hc: bool, hcn: bool, hf: bool, hfn: bool, ha: bool, han: bool, t: int, ec: bool, ef: bool, ea: bool) -> bool:
    """
    pre: 0 <= t <= 2
    post: _
    """
    ns = Namespace(command="sync", truth=("class", "function", "argparse_function")[t],
                   classes=["/c.py"] if hc else None, class_names=["C"] if hcn else None,
                   functions=["/f.py"] if hf else None, function_names=["f"] if hfn else None,
                   argparse_functions=["/a.py"] if ha else None, argparse_function_names=["g"] if han else None)
    M._build_parser = lambda: StubParser(ns)
    M.path = P({n for n, e in (("/c.py", ec), ("/f.py", ef), ("/a.py", ea)) if e})
    called = []
    M.ground_truth = lambda args, truth_file: called.append((args, truth_file)) or cf_stub(args, truth_file)
    try:
        M.main([])
    except SystemExit as e:
        return e.code == 2 and not called
    return True

def cf_stub(args, truth_file):
    # the first lines of the real ground_truth that only touch args (name lookup for every kind)
    for kind in ("argparse_function", "class", "function"):
        cf._get_name_from_namespace(args, kind)
    return {}
