import chfix
import ast, io
try:
    import meta
except Exception:
    pass
from collections import OrderedDict
from copy import deepcopy
import doctrans.emit as em
import doctrans.conformance as cf
import doctrans.source_transformer as st
from doctrans import emit, parse

class Fault(OSError): pass

class FS:
    def __init__(self, files, k):
        self.files = dict(files); self.k = k; self.n = 0; self.log = []
    def tick(self, what):
        self.log.append(what)
        if self.n == self.k:
            self.n += 1
            raise Fault(what)
        self.n += 1
    def open(self, name, mode="r"):
        fs = self
        fs.tick(("open", name, mode))
        class F:
            def __enter__(s): return s
            def __exit__(s, *a): return False
            def read(s): return fs.files[name]
            def write(s, data):
                # mid-write fault: half of the data lands
                half = len(data) // 2
                fs.files[name] = fs.files.get(name, "") + data[:half]
                fs.tick(("write", name))
                fs.files[name] += data[half:]
        if "w" in mode: fs.files[name] = ""
        elif "a" in mode: fs.files.setdefault(name, "")
        elif name not in fs.files: raise FileNotFoundError(name)
        return F()

CLS = '''class C(object):
    """
    Summary

    :cvar a: the a"""
    a: int = 5
'''
FN_STALE = '''import os

class K(object):
    def f(self, a: int = 4):
        """
        Old

        :param a: old a
        """
        pass
'''

class P:
    def __init__(self, fs): self.fs = fs
    def isfile(self, n): return n in self.fs.files
    def realpath(self, n): return n
    def expanduser(self, n): return n

def ok_state(before, after):
    for n, b in before.items():
        a = after.get(n)
        if a == b: continue
        try: ast.parse(a)
        except SyntaxError: return False
        if a == "": return False
    return True

def h_fault(k: int) -> bool:
    """
    pre: 0 <= k <= 12
    post: _
    """
    from argparse import Namespace
    before = {"/c.py": CLS, "/f.py": FN_STALE}
    fs = FS(before, k)
    em.open = fs.open; cf.open = fs.open; cf.path = P(fs)
    args = Namespace(truth="class", classes=["/c.py"], class_names=["C"], functions=["/f.py"], function_names=["K.f"], argparse_functions=["/a.py"], argparse_function_names=["set_cli_args"])
    try:
        cf.ground_truth(args, "/c.py")
    except Fault:
        pass
    return ok_state(before, fs.files)
