import chfix
def h_a(s: str) -> bool:
    """
    pre: 1 <= len(s) <= 2
    post: _
    """
    v = '"' + s + '"'
    return v[1:-1] == s

def h_b(s: str) -> bool:
    """
    pre: 1 <= len(s) <= 2
    post: _
    """
    v = '"{}"'.format(s)
    return len(v) == len(s) + 2

def h_c(s: str) -> bool:
    """
    pre: 1 <= len(s) <= 2
    post: _
    """
    v = '"{}"'.format(s)
    return v == '"' + s + '"'

def h_d(s: str) -> bool:
    """
    pre: 1 <= len(s) <= 2
    post: _
    """
    v = '"{}"'.format(s)
    w = v[1:-1]
    return len(w) == len(s)

def h_e(s: str) -> bool:
    """
    pre: 1 <= len(s) <= 2
    post: _
    """
    v = '"{}"'.format(s)
    w = v[1:-1]
    return w == s
def h_f(s: str) -> bool:
    """
    pre: len(s) == 1
    post: _
    """
    v = '"{}"'.format(s)
    w = v[1:-1]
    return w[0] == s[0]
