import chfix
from collections import OrderedDict
from copy import deepcopy
from doctrans import emit, parse

def _ir(doc, default):
    return {"name": None, "type": "static", "doc": "Summary",
            "params": OrderedDict([("a", {"typ": "str", "doc": doc, "default": default}), ("b", {"typ": "int", "doc": "the b", "default": 3})]),
            "returns": None}

def h_fn(doc: str, default: str) -> bool:
    """
    pre: 1 <= len(doc) <= 3 and 1 <= len(default) <= 2
    pre: all(c in 'ab .,' for c in doc) and doc == doc.strip()
    pre: all(c in 'ab' for c in default)
    post: _
    """
    ir = _ir(doc, default)
    fn = emit.function(deepcopy(ir), function_name="f", function_type="static", emit_default_doc=False, inline_types=True, emit_as_kwonlyargs=False)
    back = parse.function(fn)
    pa = back["params"]["a"]
    return list(back["params"]) == ["a", "b"] and pa.get("doc") == doc and pa.get("default") == default and pa.get("typ") == "str"

def h_cls(doc: str, default: str) -> bool:
    """
    pre: 1 <= len(doc) <= 3 and 1 <= len(default) <= 2
    pre: all(c in 'ab .,' for c in doc) and doc == doc.strip()
    pre: all(c in 'ab' for c in default)
    post: _
    """
    ir = _ir(doc, default)
    node = emit.class_(deepcopy(ir), class_name="C", emit_default_doc=False)
    back = parse.class_(node)
    pa = back["params"]["a"]
    return list(back["params"]) == ["a", "b"] and pa.get("doc") == doc and pa.get("default") == default and pa.get("typ") == "str"

def h_argparse(doc: str, default: str) -> bool:
    """
    pre: 1 <= len(doc) <= 3 and 1 <= len(default) <= 2
    pre: all(c in 'ab .,' for c in doc) and doc == doc.strip()
    pre: all(c in 'ab' for c in default)
    post: _
    """
    ir = _ir(doc, default)
    node = emit.argparse_function(deepcopy(ir), emit_default_doc=False)
    back = parse.argparse_ast(node)
    pa = back["params"]["a"]
    return list(back["params"]) == ["a", "b"] and pa.get("doc") == doc and pa.get("default") == default and pa.get("typ") == "str"
