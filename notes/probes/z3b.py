import time, sys
from z3 import *
from doctrans.docstring_utils import TOKENS
L = int(sys.argv[1])
H1 = String("H1")
pre, post = "\na : int\n    ", "\nb : str\n"
text = Concat(StringVal(pre), H1, StringVal(post))
alpha = Union(*[Re(c) for c in sorted(set("ab .,:()`0-PpRrAaeturnsgmvyc"))])
toks = [t for g in TOKENS for t in g]
for name, extra in (("within-domain", []),):
    t0=time.time()
    s = SolverFor("QF_SLIA"); s.set("timeout", 60000)
    s.add(InRe(H1, Star(alpha)), Length(H1) <= L, Length(H1) >= 1)
    # domain: no token inside the hole -- as a regex complement instead of Not(Contains)
    for t in toks:
        s.add(Not(InRe(H1, Concat(Star(AllChar(ReSort(StringSort()))), Re(t), Star(AllChar(ReSort(StringSort())))))))
    s.add(Or(*[Contains(text, StringVal(t)) for t in TOKENS.rest + TOKENS.google]))
    r = s.check(); print(name, L, r, round(time.time()-t0,2), s.model() if str(r)=="sat" else "")
