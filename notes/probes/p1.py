from collections import OrderedDict
from copy import deepcopy
from doctrans import emit, parse
from doctrans.defaults_utils import extract_default, set_default_doc
import traceback

print("== C17")
for s in ["x. Defaults to -5", "x. Defaults to 0", "x. Defaults to 5", "x. Defaults to 1e-7", "x. Defaults to 2.5.", "x. Defaults to True", "x. Defaults to None", "x. Defaults to (1, 2)", "the default is odd", "x. Defaults to foo.bar", "x. Defaults to -5.0", "x. Defaults to 5."]:
    for edd in (True, False):
        try: print(repr(s), edd, extract_default(s, emit_default_doc=edd))
        except Exception as e: print(repr(s), edd, "EXC", type(e).__name__, e)
for typ, d in [("int", -5), ("int", 0), (None, -5), ("float", 2.5), ("str", "foo"), ("bool", True), (None, None), ("Optional[int]", -3)]:
    p = {"doc": "some doc", "default": d}
    if typ: p["typ"] = typ
    n, q = set_default_doc(("a", deepcopy(p)))
    try:
        back = extract_default(q["doc"], typ=typ, emit_default_doc=False)
    except Exception as e:
        back = ("EXC", type(e).__name__, str(e))
    print(typ, repr(d), "->", repr(q["doc"]), "->", back)

print("== C01")
def ir(params, returns=None, doc="Summary line"):
    return {"name": None, "type": "static", "doc": doc, "params": OrderedDict(params), "returns": returns}
cases = {
 "only_return": ir([], OrderedDict([("return_type", {"typ": "int", "doc": "the result"})])),
 "neg_int": ir([("a", {"typ": "int", "doc": "an a", "default": -5})]),
 "nodefault_after_default": ir([("a", {"typ": "int", "doc": "an a", "default": 5}), ("b", {"typ": "str", "doc": "a b"})]),
 "plain": ir([("a", {"typ": "int", "doc": "an a", "default": 5}), ("b", {"typ": "str", "doc": "a b", "default": "x"})], OrderedDict([("return_type", {"typ": "int", "doc": "the result"})])),
 "noparams_noreturn": ir([]),
}
for name, i in cases.items():
    for style in ("rest", "numpydoc", "google"):
        try:
            txt = emit.docstring(deepcopy(i), docstring_format=style)
            back = parse.docstring(txt)
            ok = (back["params"] == i["params"] and back["returns"] == i["returns"] and back["doc"] == i["doc"])
            print(name, style, "OK" if ok else "DIFF")
            if not ok:
                print("   text:", repr(txt)); print("   back:", dict(back))
        except Exception as e:
            print(name, style, "EXC", type(e).__name__, e)
