import chfix
import ast, inspect
from collections import OrderedDict
from copy import deepcopy
import doctrans.pure_utils as pu, doctrans.emitter_utils as eu, doctrans.docstring_utils as du, doctrans.emit as em, doctrans.ast_utils as au
from doctrans import emit

# extract the module-level statements that define line_length / fill from the current source
_src = inspect.getsource(pu)
_stmts = [n for n in ast.parse(_src).body if isinstance(n, ast.Assign) and any(getattr(t, "id", None) in ("line_length", "fill") for t in n.targets)]
_code = compile(ast.Module(body=_stmts, type_ignores=[]), "<pure_utils:line_length>", "exec")

IR = {"name": None, "type": "static", "doc": "Summary", "params": OrderedDict([("a", {"typ": "int", "doc": "the a"})]), "returns": None}

class Env(dict):
    pass
_NS = dict(vars(pu))

def h_env(raw: str) -> bool:
    """
    pre: 1 <= len(raw) <= 3
    pre: all(c in '0123456789' for c in raw)
    pre: raw[0] != '0'
    post: _
    raises:
    """
    ns = _NS.copy(); e = Env(); e["DOCTRANS_LINE_LENGTH"] = raw; ns["environ"] = e
    exec(_code, ns)
    for m in (pu, eu, du, em, au):
        m.fill = ns["fill"]
    pu.line_length = ns["line_length"]; eu.line_length = ns["line_length"]
    emit.docstring(deepcopy(IR), docstring_format="rest", word_wrap=True)
    return True
