import time
from z3 import *
from doctrans.docstring_utils import TOKENS
t0=time.time()
# template of a numpydoc emission with two holes (prose of a, prose of b)
H1, H2 = String("H1"), String("H2")
text = Concat(StringVal("\nSummary\n\n\nParameters\n----------\na : int\n    "), H1, StringVal("\nb : str\n    "), H2, StringVal("\n\nReturns\n-------\nint\n    the r\n\n"))
alpha = Union(*[Re(c) for c in "ab .,:()`0-PpRrAaeturnsgm"])
def dom(h):
    cs = [InRe(h, Star(alpha)), Length(h) <= 8, Length(h) >= 1]
    for group in TOKENS:
        for tok in group:
            cs.append(Not(Contains(h, StringVal(tok))))
    return cs
is_rest = Or(*[Contains(text, StringVal(t)) for t in TOKENS.rest])
is_google = Or(*[Contains(text, StringVal(t)) for t in TOKENS.google])
s = Solver(); s.set("timeout", 60000)
s.add(*dom(H1), *dom(H2))
s.add(Or(is_rest, is_google))   # detected as something other than numpydoc
r = s.check(); print(r, time.time()-t0)
if str(r) == "sat": print(s.model())
