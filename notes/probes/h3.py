from doctrans.defaults_utils import extract_default, set_default_doc

def h_intlike(s: str) -> bool:
    """
    pre: 1 <= len(s) <= 3
    pre: all(c in '-0123456789' for c in s)
    pre: s[0] != '-' or (len(s) > 1 and '-' not in s[1:])
    pre: '-' not in s[1:]
    post: _
    """
    _, back = extract_default("x. Defaults to " + s)
    return type(back) is int

def h_prose_untouched(doc: str) -> bool:
    """
    pre: len(doc) <= 6
    pre: 'efault' not in doc
    post: _
    """
    d, back = extract_default(doc, emit_default_doc=False)
    return back is None and d == doc
