import time
from z3 import *
t=time.time()
X = String("X")
D = Range("0","9")
digits1 = Plus(D)
INT = Concat(Option(Re("-")), Union(Re("0"), Concat(Range("1","9"), Star(D))))
FLOATREPR = Union(Concat(Option(Re("-")), digits1, Re("."), digits1, Option(Concat(Re("e"), Union(Re("+"),Re("-")), D, digits1))),
                  Concat(Option(Re("-")), D, Option(Concat(Re("."), digits1)), Re("e"), Union(Re("+"),Re("-")), D, digits1),
                  Re("inf"), Re("-inf"), Re("nan"))
ISDEC = digits1
def q(name, *cs):
    s = Solver(); s.set("timeout", 20000); s.add(*cs); r = s.check(); print(name, r, s.model()[X] if str(r)=="sat" else "")
q("int rendering not decimal", InRe(X, INT), Not(InRe(X, ISDEC)))
q("float repr that is decimal", InRe(X, FLOATREPR), InRe(X, ISDEC))
q("nonneg int not decimal", InRe(X, Union(Re("0"), Concat(Range("1","9"), Star(D)))), Not(InRe(X, ISDEC)))
print(time.time()-t)
