import ast
from typing import List, Optional
from doctrans.ast_utils import annotate_ancestry, find_in_ast, set_arg

def mkfn(name, argnames, body=None):
    return ast.FunctionDef(name=name, args=ast.arguments(posonlyargs=[], args=[ast.arg(arg=a, annotation=None) for a in argnames], vararg=None, kwonlyargs=[], kw_defaults=[], kwarg=None, defaults=[]), body=body or [ast.Pass()], decorator_list=[], returns=None, type_params=[])

def mkcls(name, body):
    return ast.ClassDef(name=name, bases=[], keywords=[], body=body, decorator_list=[], type_params=[])

def oracle(search, mod):
    """independent resolver: list of nodes whose qualified path == search"""
    out = []
    def rec(node, prefix):
        for ch in getattr(node, "body", []):
            if isinstance(ch, (ast.FunctionDef, ast.ClassDef)):
                p = prefix + [ch.name]
                if p == search: out.append(ch)
                if isinstance(ch, ast.FunctionDef):
                    for a in ch.args.args + ch.args.kwonlyargs:
                        if p + [a.arg] == search: out.append(a)
                else:
                    rec(ch, p)
            elif isinstance(ch, ast.AnnAssign) and isinstance(ch.target, ast.Name):
                if prefix + [ch.target.id] == search: out.append(ch)
    rec(mod, [])
    return out

def h_find(f: str, a: str, c: str, m: str, x: str, s0: str, s1: str, s2: str) -> bool:
    """
    pre: all(1 <= len(t) <= 2 for t in (f, a, c, m, x, s0, s1, s2))
    pre: f != c
    post: _
    """
    meth = mkfn(m, ["self", x])
    mod = ast.Module(body=[mkfn(f, [a]), mkcls(c, [meth])], type_ignores=[])
    annotate_ancestry(mod)
    search = [s0, s1, s2]
    want = oracle(search, mod)
    got = find_in_ast(search, mod)
    if len(want) == 0:
        return got is None
    return got is want[0]
