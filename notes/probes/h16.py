import chfix
from doctrans.pure_utils import simple_types, none_types
def h_fs(a: str, b: str, x: str) -> bool:
    """
    pre: len(a) <= 2 and len(b) <= 2 and len(x) <= 2
    post: _
    """
    return (x in frozenset((a, b))) == (x == a or x == b)

def h_dict(x: str) -> bool:
    """
    pre: len(x) <= 5
    post: _
    """
    return (x in simple_types) == (x in ("int", "float", "complex", "str", "bool")) and (x in none_types) == (x == "None" or x == "```(None)```")

def h_keys(a: str, b: str, x: str) -> bool:
    """
    pre: len(a) <= 2 and len(b) <= 2 and len(x) <= 2 and a != b
    post: _
    """
    from collections import OrderedDict
    d = OrderedDict([(a, 1), (b, 2)])
    return (x in d) == (x == a or x == b) and list(d) == [a, b]
