from crosshair import simplestructs as _ss
def _seqcat_eq(self, other):
    if self is other:
        return True
    if not hasattr(other, "__len__"):
        return False
    if self.__len__() != other.__len__():
        return False
    for a, b in zip(self, other):
        if a is b:
            continue
        if a != b:
            return False
    return True
_ss.SequenceConcatenation.__eq__ = _seqcat_eq
