import chfix
from functools import partial
from operator import contains
from doctrans.docstring_utils import TOKENS
def h(doc: str) -> bool:
    """
    pre: len(doc) == 1
    pre: all(c in 'ab' for c in doc)
    post: _
    """
    text = "\nSummary\n\n\nParameters\n----------\na : int\n    " + doc + "\nb : str\n    the b\n\nReturns\n-------\nint\n    the r\n\n"
    return not any(map(partial(contains, text), TOKENS.rest))
def h2(doc: str) -> bool:
    """
    pre: len(doc) == 1
    pre: all(c in 'ab' for c in doc)
    post: _
    """
    text = "\nSummary\n\n\nParameters\n----------\na : int\n    " + doc + "\nb : str\n    the b\n\nReturns\n-------\nint\n    the r\n\n"
    return not (":param" in text)
