import ast
from doctrans import parse, emit
from doctrans.source_transformer import to_code, ast_parse
from doctrans.ast_utils import find_in_ast, annotate_ancestry
def show(src):
    fd = ast.parse(src).body[0]
    try:
        ir = parse.function(fd)
        print({k: dict(v) for k, v in ir["params"].items()}, ir.get("returns"))
    except Exception as e:
        print("EXC", type(e).__name__, e)
show("def f(a, b=5):\n    pass")
show("def f(a=1, b=5):\n    pass")
show("def f(a, *, c, d=7):\n    pass")
show("def f(a, b=5, **kw):\n    '''\n    Doc\n\n    :param b: the b\n    '''\n    pass")
show("def f(a: int, b: str = 'x') -> int:\n    '''\n    Doc\n\n    :returns: the r\n    '''\n    return 3")
show("def f(b, a, c):\n    '''\n    Doc\n\n    :param a: the a\n    '''")
src = "def helper(x):\n    pass\n\nclass C(object):\n    def m(self, y: int = 1):\n        pass\n"
mod = ast_parse(src)
for s in (["C"], ["C","m"], ["C","m","y"], ["helper"], ["helper","x"], ["m"], ["C","x"]):
    r = find_in_ast(s, mod)
    print(s, type(r).__name__, getattr(r, "name", getattr(r, "arg", None)))
