import ast, sys
from doctrans import parse
fd = ast.parse("def f(b, a, c, d, e):\n    '''\n    Doc\n\n    :param a: the a\n    '''").body[0]
print(list(parse.function(fd)["params"]))
