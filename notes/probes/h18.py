import chfix
from collections import OrderedDict
from doctrans import emit, parse

def _rt(doc, style):
    ir = {"name": None, "type": "static", "doc": "Summary", "params": OrderedDict([("a", {"typ": "int", "doc": doc}), ("b", {"typ": "str", "doc": "the b"})]), "returns": OrderedDict([("return_type", {"typ": "int", "doc": "the r"})])}
    txt = emit.docstring(ir, docstring_format=style, word_wrap=False)
    back = parse.docstring(txt, emit_default_doc=False)
    return list(back["params"]) == ["a", "b"] and back["params"]["a"].get("doc") == doc and back["params"]["a"].get("typ") == "int" and back["params"]["b"].get("doc") == "the b" and (back["returns"] or {}).get("return_type", {}).get("doc") == "the r"

def h_numpy(doc: str) -> bool:
    """
    pre: 1 <= len(doc) <= 3
    pre: all(c in 'ab .,:' for c in doc)
    pre: doc == doc.strip()
    post: _
    """
    return _rt(doc, "numpydoc")

def h_google(doc: str) -> bool:
    """
    pre: 1 <= len(doc) <= 3
    pre: all(c in 'ab .,:' for c in doc)
    pre: doc == doc.strip()
    post: _
    """
    return _rt(doc, "google")
