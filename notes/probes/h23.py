import chfix
import ast
from collections import OrderedDict
from collections.abc import KeysView
import doctrans.parse as P, doctrans.docstring_parsers as DP
from h13 import AnyOrderSet, NDKeys

PICKS = [0, 0, 0, 0]
class NDOD(OrderedDict):
    def keys(self): return NDKeys(self, PICKS)

SRC = "def f(b, a, c, d):\n    '''\n    Doc\n\n    :param a: the a\n    '''\n    pass"
def h(p0: int, p1: int, p2: int) -> bool:
    """
    pre: 0 <= p0 <= 2 and 0 <= p1 <= 1 and p2 == 0
    post: _
    """
    PICKS[:] = [p0, p1, p2, 0]
    P.OrderedDict = NDOD; DP.OrderedDict = NDOD
    fd = ast.parse(SRC).body[0]
    names = list(P.function(fd)["params"])
    return [n for n in names if n != "a"] == ["b", "c", "d"]
