from doctrans.defaults_utils import extract_default, set_default_doc
from doctrans.pure_utils import quote, unquote, location_within

def h_unquote_quote(s: str) -> bool:
    """
    pre: len(s) <= 4
    post: _
    """
    return unquote(quote(s)) == unquote(s)

def h_int_roundtrip(d: int, doc: str) -> bool:
    """
    pre: -1000 <= d <= 1000
    pre: 1 <= len(doc) <= 3
    pre: all(c in 'ab .' for c in doc)
    post: _
    """
    name, p = set_default_doc(("a", {"doc": doc, "default": d}))
    _, back = extract_default(p["doc"])
    return type(back) is int and back == d

def h_loc(container: str, needle: str) -> bool:
    """
    pre: len(container) <= 5 and 1 <= len(needle) <= 3
    post: _
    """
    s, e, f = location_within(container, (needle,))
    idx = container.find(needle)
    return s == idx
