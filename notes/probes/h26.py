import chfix
import ast, os
from doctrans import parse
import doctrans.parse as P, doctrans.docstring_parsers as DP

import atexit, sys
N = [0]
atexit.register(lambda: sys.stderr.write("PATHS=%d\n" % N[0]))

def mkfn(name, pos, n_pos_defaults, kwonly, kw_mask, kwarg, first, doc, dvals):
    args = ([ast.arg(arg=first, annotation=None)] if first else []) + [ast.arg(arg=a, annotation=None) for a in pos]
    defaults = [ast.Constant(value=dvals[i]) for i in range(n_pos_defaults)]
    kw_defaults = [ast.Constant(value=dvals[2 + i]) if kw_mask[i] else None for i in range(len(kwonly))]
    body = ([ast.Expr(ast.Constant(value=doc))] if doc is not None else []) + [ast.Pass()]
    return ast.FunctionDef(name=name, args=ast.arguments(posonlyargs=[], args=args, vararg=None, kwonlyargs=[ast.arg(arg=a, annotation=None) for a in kwonly],
                           kw_defaults=kw_defaults, kwarg=ast.arg(arg=kwarg, annotation=None) if kwarg else None, defaults=defaults),
                           body=body, decorator_list=[], returns=None, type_params=[])

def python_sees(fd):
    a = fd.args
    pos = [x.arg for x in a.args]
    if pos and pos[0] in ("self", "cls"): pos = pos[1:]; 
    allpos = [x.arg for x in a.args]
    nd = len(a.defaults)
    out = []
    for i, x in enumerate(a.args):
        if x.arg in ("self", "cls") and i == 0: continue
        j = i - (len(a.args) - nd)
        out.append((x.arg, a.defaults[j].value if j >= 0 else "<empty>"))
    for x, d in zip(a.kwonlyargs, a.kw_defaults):
        out.append((x.arg, d.value if d is not None else "<empty>"))
    if a.kwarg: out.append((a.kwarg.arg, "<kwargs>"))
    return out

def h_sig(npd: int, m0: bool, m1: bool, dk: bool, d0: int, d1: int, d2: int, d3: int, doc_a: bool, doc_c: bool, swap: bool) -> bool:
    """
    pre: 0 <= npd <= 2
    pre: all(-5 <= d <= 5 for d in (d0, d1, d2, d3))
    post: _
    """
    N[0] += 1
    lines = []
    if doc_a: lines.append(":param a: the a")
    if doc_c: lines.append(":param c: the c")
    if swap: lines.reverse()
    doc = ("\n    Summary\n\n    " + "\n    ".join(lines) + "\n    ") if lines else None
    fd = mkfn("f", ["a", "b"], npd, ["c", "d"], [m0, m1], "kw" if dk else None, None, doc, [d0, d1, d2, d3])
    want = python_sees(fd)
    ir = parse.function(fd)
    got = [(k, v.get("default", "<empty>")) for k, v in ir["params"].items()]
    want_n = [(k, "<kwargs>" if d == "<kwargs>" else d) for k, d in want]
    got_n = [(k, "<kwargs>" if k == "kw" else d) for k, d in got]
    return got_n == want_n
