import chfix
import ast
from collections import OrderedDict
from copy import deepcopy
from doctrans import emit, parse
from doctrans.emitter_utils import RewriteName

def sig(node):
    if isinstance(node, ast.AST):
        return (type(node).__name__,) + tuple((f, sig(getattr(node, f, None))) for f in node._fields)
    if isinstance(node, (list, tuple)):
        return tuple(sig(x) for x in node)
    return node

def body(x, y, z, k):
    # return g(x, k=y) + z.y
    return [ast.Return(value=ast.BinOp(left=ast.Call(func=ast.Name("g", ast.Load()), args=[ast.Name(x, ast.Load())], keywords=[ast.keyword(arg=k, value=ast.Name(y, ast.Load()))]),
                                        op=ast.Add(), right=ast.Attribute(value=ast.Name(z, ast.Load()), attr=y, ctx=ast.Load())))]

def expect(x, y, z, k, params):
    def nm(n): return ast.Attribute(ast.Name("self", ast.Load()), n, ast.Load()) if n in params else ast.Name(n, ast.Load())
    g = nm("g")
    return [ast.Return(value=ast.BinOp(left=ast.Call(func=g, args=[nm(x)], keywords=[ast.keyword(arg=k, value=nm(y))]),
                                        op=ast.Add(), right=ast.Attribute(value=nm(z), attr=y, ctx=ast.Load())))]

def h_rename(x: str, y: str, z: str, k: str) -> bool:
    """
    pre: all(1 <= len(t) <= 2 for t in (x, y, z, k))
    pre: all(c in 'abg' for t in (x, y, z, k) for c in t)
    post: _
    """
    params = ("a", "b")
    got = [RewriteName(frozenset(params)).visit(n) for n in body(x, y, z, k)]
    return sig(got) == sig(expect(x, y, z, k, params))

IR = {"name": None, "type": "static", "doc": "Summary",
      "params": OrderedDict([("a", {"typ": "str", "doc": "the a", "default": "x"}), ("b", {"typ": "int", "doc": "the b", "default": 3})]),
      "returns": OrderedDict([("return_type", {"typ": "int", "doc": "the r", "default": "```3```"})])}

def h_frame_class(doc: str) -> bool:
    """
    pre: 1 <= len(doc) <= 2
    pre: all(c in 'ab .' for c in doc) and doc == doc.strip()
    post: _
    """
    ir = deepcopy(IR); ir["params"]["a"]["doc"] = doc
    snap = deepcopy(ir)
    emit.class_(ir, class_name="C")
    return ir == snap

def h_seq(s1: int, s2: int) -> bool:
    """
    pre: 0 <= s1 <= 3 and 0 <= s2 <= 3
    post: _
    """
    E = [lambda ir: sig(emit.class_(ir, class_name="C")), lambda ir: sig(emit.function(ir, function_name="f", function_type="static")),
         lambda ir: sig(emit.argparse_function(ir)), lambda ir: emit.docstring(ir)]
    shared = deepcopy(IR)
    E[s1](shared)
    try:
        got = E[s2](shared)
    except Exception:
        return False
    return got == E[s2](deepcopy(IR))
