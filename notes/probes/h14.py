import chfix
from collections import OrderedDict
from functools import partial
from textwrap import fill as _fill
from copy import deepcopy
import doctrans.pure_utils as pu, doctrans.emitter_utils as eu, doctrans.docstring_utils as du, doctrans.emit as em, doctrans.ast_utils as au
from doctrans import emit, parse

IR = {"name": None, "type": "static", "doc": "Acquire from the official tensorflow_datasets model zoo, or the ophthalmology focussed ml-prepare library",
      "params": OrderedDict([("dataset_name", {"typ": "str", "doc": "name of dataset with a rather long explanation that goes on and on.", "default": "mnist"}),
                             ("K", {"typ": "Literal['np', 'tf']", "doc": "backend engine, e.g., `np` or `tf`.", "default": "np"})]),
      "returns": OrderedDict([("return_type", {"typ": "Union[Tuple[tf.data.Dataset, tf.data.Dataset], Tuple[np.ndarray, np.ndarray]]", "doc": "Train and tests dataset splits."})])}

def norm(ir):
    return [(k, " ".join((v.get("doc") or "").split()), v.get("typ"), v.get("default")) for k, v in ir["params"].items()], " ".join(ir["doc"].split())

def h_width(w: int) -> bool:
    """
    pre: 20 <= w
    post: _
    """
    f = partial(_fill, width=w)
    for m in (pu, eu, du, em, au):
        m.fill = f
    pu.line_length = w; eu.line_length = w
    a = emit.docstring(deepcopy(IR), docstring_format="rest", word_wrap=True)
    b = emit.docstring(deepcopy(IR), docstring_format="rest", word_wrap=False)
    return norm(parse.docstring(a)) == norm(parse.docstring(b))
