from collections import OrderedDict
from doctrans.defaults_utils import extract_default, set_default_doc
from doctrans import emit, parse

def h_intlike(s: str) -> bool:
    """
    pre: 1 <= len(s) <= 3
    pre: all(c in '-0123456789' for c in s)
    pre: '-' not in s[1:]
    pre: s != '-'
    pre: not (s.startswith('0') and len(s) > 1) and not s.startswith('-0')
    post: _
    """
    _, back = extract_default("x. Defaults to " + s)
    return type(back) is int

def h_prose_untouched(doc: str) -> bool:
    """
    pre: len(doc) <= 14
    pre: 'efault' not in doc
    post: _
    """
    d, back = extract_default(doc, emit_default_doc=False)
    return back is None and d == doc

def h_prose_untouched2(doc: str) -> bool:
    """
    pre: len(doc) <= 14
    pre: 'efaults to' not in doc and 'EFAULTS TO' not in doc and 'efault value is' not in doc and 'efault:' not in doc
    post: _
    """
    d, back = extract_default(doc, emit_default_doc=False)
    return back is None and d == doc

def h_rest_prose(doc: str) -> bool:
    """
    pre: 1 <= len(doc) <= 3
    pre: all(c in 'ab .,' for c in doc)
    pre: doc == doc.strip()
    post: _
    """
    ir = {"name": None, "type": "static", "doc": "Summary", "params": OrderedDict([("a", {"typ": "int", "doc": doc})]), "returns": None}
    txt = emit.docstring(ir, docstring_format="rest", word_wrap=False)
    back = parse.docstring(txt, emit_default_doc=False)
    return list(back["params"]) == ["a"] and back["params"]["a"].get("doc") == doc and back["params"]["a"].get("typ") == "int"
