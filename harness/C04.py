"""C04 - argparse-function round trip: parse.argparse_ast(emit.argparse_function(ir)) describes the same interface."""
from harness.rt import *  # noqa: F401,F403
from harness import gridrun
from harness.gridrun import grid_ob  # noqa: F401  (obligation bodies call H.grid_ob)
from harness.rt import mk_ob

FUNCS = [
    "doctrans.emit.argparse_function", "doctrans.ast_utils.param2argparse_param", "doctrans.ast_utils._resolve_arg",
    "doctrans.ast_utils._parse_node_for_arg", "doctrans.ast_utils.infer_type_and_default", "doctrans.parse.argparse_ast",
    "doctrans.emitter_utils.parse_out_param", "doctrans.emitter_utils._handle_value", "doctrans.emitter_utils._handle_keyword",
    "doctrans.emitter_utils._parse_return", "doctrans.defaults_utils.extract_default",
]
ASSUMPTIONS = [
    "IR domain D restricted to what argparse can express: scalar types, Optional/List/Literal of scalars, kwargs-named dict parameter; "
    "only a return entry that carries a default is representable",
    "permitted normalisations: required option without default acquires the zero value; Optional <-> not required (a None default "
    "is carried by optionality)",
]
EXPR = ["p1_ret_none", "p1_int_code", "p1_optint_d", "p1_optbool_f", "p1_optfloat_z", "p2_d_then_optd", "p1_int", "p1_int_d", "p1_str_s", "p1_bool_b", "p1_float", "p1_optint_none", "p1_optstr_s", "p1_list", "p1_literal",
        "p2_d_then_plain", "p2_plain_then_d", "p2_both_d", "p1_ret", "p1_ret_d", "p1_kwargs", "p0", "p3_mixed", "sum2"]


def obligations(tier, seed):
    obs = []
    for sid in EXPR:
        obs.append(mk_ob("rt", "rt", "argparse", sid, {"emit_default_doc": True}, tier, funcs=FUNCS))
    for sid in (["p1_int_d", "p1_str_s", "p2_d_then_plain"] if tier == "quick" else EXPR):
        obs.append(mk_ob("rt", "rt", "argparse", sid, {"emit_default_doc": False}, tier, funcs=FUNCS))
    for sid in (["p1_int_d", "p1_str_s"] if tier == "quick" else EXPR):
        obs.append(mk_ob("text", "rt", "argparse", sid, {"emit_default_doc": True}, tier, extra=", text=True", kind="F", fixed={"p": "the a b"}, str_alpha="STR_T", funcs=FUNCS))
    obs += gridrun.obligations('C04', tier, FUNCS)
    return obs
