"""
C20 - rejected or failing invocations never damage source files.

argument space: doctrans.__main__.main(argv) is called in-process with an argv assembled from symbolic presence flags (which sync
    options are given, with or without their --*-name, truth choice) and symbolic file-existence flags on the in-memory FS;
    a rejected combination must exit with status 2 and leave the FS untouched; every accepted combination must complete.
crash points: the FS raises OSError at the k-th I/O event (k symbolic over the whole event trace: before open, after open / before
    write with the file already truncated, mid-write with half of the data landed) of a multi-target sync and of sync_properties;
    a conversion fault makes the j-th emitter call raise (j symbolic).  Afterwards every file is byte-identical to before, or
    complete (what the fault-free run writes) and parseable.
"""
import ast
import io
from contextlib import redirect_stderr, redirect_stdout

from harness.syncenv import *  # noqa: F401,F403
from harness.syncenv import FILES, IRS, KINDS, MODS, NAMES, STALE, render
from lib.chutil import realize, untraced
from lib.fsstub import FS, install
from lib.ob import Ob

import doctrans.__main__
import doctrans.emit

FUNCS = ["doctrans.__main__.main", "doctrans.__main__._build_parser", "doctrans.conformance.ground_truth", "doctrans.conformance._conform_filename",
         "doctrans.sync_properties.sync_properties", "doctrans.emit.file", "doctrans.gen.gen (exists guard only)"]
ASSUMPTIONS = [
    "file system = lib/fsstub.py: truncate-at-open for 'w', one event per open / write, OSError injected at event k; real kernel semantics "
    "(byte-granular partial writes, fsync, power loss, signals) are outside the claim",
    "the real ArgumentParser parses the argv; `python -m doctrans` itself cannot start on this interpreter (third-party `meta` import), so "
    "main(argv) is called in-process",
    "gen is covered only for its exists-guard (C19 is not applicable to this technique)",
]
FLAG = {"argparse_function": "--argparse-function", "class": "--class", "function": "--function"}


def _main(fs, argv):
    undo = install(fs, *MODS)
    code, exc = None, None
    try:
        with redirect_stdout(io.StringIO()), redirect_stderr(io.StringIO()):
            try:
                doctrans.__main__.main(argv)
            except SystemExit as e:
                code = e.code
            except Exception as e:  # internal error
                exc = e
    finally:
        undo()
    return code, exc


# ------------------------------------------------------------------------------------------------ argument space: sync
def _sync_table():
    out = []
    for truth in range(3):
        for given in range(8):           # bit i: kind i's file option given
            for named in range(8):       # bit i: kind i's --*-name given
                if named & ~given:
                    continue
                for exists in range(8):  # bit i: kind i's file exists
                    if exists & ~given:
                        continue
                    out.append((truth, given, named, exists))
    return out


SYNC_TABLE = _sync_table()


def cli_sync(c, active):
    c = realize(c)
    with untraced():
        truth, given, named, exists = SYNC_TABLE[c]
        ir = IRS[0]()
        files = {}
        argv = ["sync", "--truth", KINDS[truth]]
        for i, k in enumerate(KINDS):
            if (given >> i) & 1:
                argv += [FLAG[k], FILES[k]]
                if (named >> i) & 1:
                    argv += [FLAG[k] + "-name", "train" if k == "function" else NAMES[k]]
                if (exists >> i) & 1:
                    files[FILES[k]] = render(k, ir)
        fs = FS(files)
        before = fs.snapshot()
        code, exc = _main(fs, argv)
        ngiven = bin(given).count("1")
        rejected = not (given >> truth) & 1 or ngiven < 2 or not (exists >> truth) & 1
        if rejected:
            # usage error, exit status 2, nothing touched
            return code == 2 and exc is None and fs.snapshot() == before and not fs.opened_w
        if exc is not None:
            unnamed = given & ~named
            if "KF-C20-missing-name-typeerror" in active and unnamed and isinstance(exc, TypeError):
                return True
            return False
        return code is None


def cli_props(in_exists, out_exists):
    in_exists, out_exists = realize((in_exists, out_exists))
    with untraced():
        files = {}
        if in_exists:
            files["/p/in.py"] = "class A(object):\n    a: int = 5\n"
        if out_exists:
            files["/p/out.py"] = "def f(a: str = 'x'):\n    return a\n"
        fs = FS(files)
        before = fs.snapshot()
        code, exc = _main(fs, ["sync_properties", "--input-filename", "/p/in.py", "--input-param", "A.a", "--output-filename", "/p/out.py",
                               "--output-param", "f.a"])
        if not (in_exists and out_exists):
            return code == 2 and exc is None and fs.snapshot() == before and not fs.opened_w
        return exc is None and code is None and "int" in fs.files["/p/out.py"] and fs.files["/p/in.py"] == before["/p/in.py"]


def cli_gen_exists(active):
    """gen refuses to touch an output file that already exists (and writes nothing)"""
    with untraced():
        import doctrans.__main__ as M

        fs = FS({"/p/out.py": "X = 1\n"})
        before = fs.snapshot()
        code, exc = _main(fs, ["gen", "--name-tpl", "{name}Config", "--input-mapping", "doctrans.tests.mocks.gen_mapping", "--type", "class",
                               "--output-filename", "/p/out.py"])
        if fs.snapshot() != before or fs.opened_w:
            return False
        if code == 2 and exc is None:
            return True
        return "KF-C20-gen-exists-ioerror" in active and isinstance(exc, IOError)


def gen_spelling(spelling, exists, active):
    """gen refuses an existing output file however it is spelled (absolute, or via ~), and an accepted run never touches another file"""
    spelling, exists = realize((spelling, exists))
    with untraced():
        import doctrans.gen

        real = "/home/u/out.py"
        arg = (real, "~/out.py")[spelling]
        fs = FS({real: "KEEP = 1\n"} if exists else {})
        before = fs.snapshot()
        undo = install(fs, *(MODS + (doctrans.gen,)))
        code, exc = None, None
        try:
            with redirect_stdout(io.StringIO()), redirect_stderr(io.StringIO()):
                try:
                    doctrans.__main__.main(["gen", "--name-tpl", "{name}Config", "--input-mapping", "harness.gen_fixture.input_map", "--type", "class",
                                            "-o", arg])
                except SystemExit as e:
                    code = e.code
                except Exception as e:
                    exc = e
        finally:
            undo()
        if exists:
            # whatever happened, the existing file is byte-identical
            return fs.files.get(real) == before[real]
        return True


# ------------------------------------------------------------------------------------------------ crash points
def _project(truth, pa, pb):
    ir = IRS[0]()
    files = {FILES[truth]: render(truth, ir)}
    others = [k for k in KINDS if k != truth]
    for k, st in zip(others, (pa, pb)):
        if st == 1:
            files[FILES[k]] = "import os\n\nX = 1\n"
        elif st == 2:
            files[FILES[k]] = render(k, STALE())
        elif st == 3:
            files[FILES[k]] = "# licence header - no statement, no trailing newline"
        elif st == 4:
            files[FILES[k]] = "# licence header\n\n"
        elif st == 5:
            files[FILES[k]] = ""
        elif st == 6:
            files[FILES[k]] = "import os\n\nX = 1"  # statements, but no trailing newline
    return files


SP_CELLS = [(t, pa, pb) for t in range(3) for pa in range(7) for pb in range(7)]


def success_parses_idx(c):
    c = realize(c)
    return success_parses(*SP_CELLS[c])


def success_parses(truth_i, pa, pb):
    """no fault at all: whatever the targets looked like (missing, no definition, stale, comments only with / without a final newline,
    empty, no final newline), a sync that reports success leaves every file parseable"""
    truth_i, pa, pb = realize((truth_i, pa, pb))
    with untraced():
        truth = KINDS[truth_i]
        fs = FS(_project(truth, pa, pb))
        if _run(fs, truth) is not None:
            return False
        for f, text in fs.files.items():
            ast.parse(text)  # SyntaxError = violation
        return all(FILES[k] in fs.files for k in KINDS)


def _run(fs, truth):
    import doctrans.conformance
    from harness.syncenv import mk_args

    undo = install(fs, *MODS)
    err = None
    try:
        with redirect_stdout(io.StringIO()):
            try:
                doctrans.conformance.ground_truth(mk_args(truth, tuple(KINDS), 0), FILES[truth])
            except OSError as e:
                err = e
            except RuntimeError as e:
                err = e
    finally:
        undo()
    return err


def _ok_after(before, final, now, active, log_at_fault):
    for f in set(before) | set(final) | set(now):
        cur = now.get(f)
        if cur == before.get(f):
            continue
        if cur is not None and cur == final.get(f):
            ast.parse(cur)
            continue
        # neither untouched nor complete
        if "KF-C20-truncate-then-write" in active and cur is not None and (cur == "" or final.get(f, "").startswith(cur)):
            continue
        return False
    return True


FAULT_TABLE = [(pa, pb, k, partial) for pa in range(3) for pb in range(3) for k in range(14) for partial in (0, 1)]


def fault_sync_idx(truth_i, c, active):
    c = realize(c)
    return fault_sync(truth_i, *FAULT_TABLE[c], active)


def fault_sync(truth_i, pa, pb, k, partial, active):
    """OSError at the k-th I/O event of a three-target sync"""
    with untraced():
        truth = KINDS[truth_i]
        files = _project(truth, pa, pb)
        ref = FS(files)
        if _run(ref, truth) is not None:
            return False
        if k >= ref.n:
            return True  # beyond the end of the event trace: nothing to inject
        fs = FS(files, fail_at=k, partial=bool(partial))
        err = _run(fs, truth)
        if err is None:
            return False  # the injected fault must surface, not be swallowed
        return _ok_after(files, ref.files, fs.files, active, fs.log)


def fault_convert(truth_i, pa, pb, j, active):
    """the j-th emitter call raises (an error while converting one target)"""
    truth_i, pa, pb, j = realize((truth_i, pa, pb, j))
    with untraced():
        truth = KINDS[truth_i]
        files = _project(truth, pa, pb)
        ref = FS(files)
        if _run(ref, truth) is not None:
            return False
        calls = [0]
        saved = {}

        def wrap(fn):
            def g(*a, **kw):
                calls[0] += 1
                if calls[0] - 1 == j:
                    raise RuntimeError("injected conversion fault at emitter call %d" % j)
                return fn(*a, **kw)
            return g

        for name in ("class_", "function", "argparse_function"):
            saved[name] = getattr(doctrans.emit, name)
            setattr(doctrans.emit, name, wrap(saved[name]))
        fs = FS(files)
        try:
            err = _run(fs, truth)
        finally:
            for name, fn in saved.items():
                setattr(doctrans.emit, name, fn)
        if err is None:
            return j >= calls[0]
        return _ok_after(files, ref.files, fs.files, active, fs.log)


def fault_format(truth_i, pa, pb, j, active):
    """the j-th call of the code formatter (black) raises: an error while rendering one target"""
    truth_i, pa, pb, j = realize((truth_i, pa, pb, j))
    with untraced():
        truth = KINDS[truth_i]
        files = _project(truth, pa, pb)
        ref = FS(files)
        if _run(ref, truth) is not None:
            return False
        calls = [0]
        real = doctrans.emit.format_str

        def failing(*a, **kw):
            calls[0] += 1
            if calls[0] - 1 == j:
                raise RuntimeError("injected formatter fault at call %d" % j)
            return real(*a, **kw)

        doctrans.emit.format_str = failing
        fs = FS(files)
        try:
            err = _run(fs, truth)
        finally:
            doctrans.emit.format_str = real
        if err is None:
            return j >= calls[0]
        return _ok_after(files, ref.files, fs.files, (), fs.log)  # no tolerance: rendering happens before any file is opened


KEYWORDS = ("from", "class", "import", "lambda", "None")


def keyword_name(kw, truth_i, st, active):
    """a description whose parameter is named like a Python keyword cannot be rendered as a class / function: whatever the invocation
    does (fail, or succeed for kinds that can express it), every file afterwards is untouched, or complete AND parseable"""
    kw, truth_i, st = realize((kw, truth_i, st))
    with untraced():
        from collections import OrderedDict

        name = KEYWORDS[kw]
        src = ("def set_cli_args(argument_parser):\n    \"\"\"\n    Set CLI arguments\n\n    :param argument_parser: argument parser\n"
               "    :type argument_parser: ```ArgumentParser```\n\n    :returns: argument_parser\n    :rtype: ```ArgumentParser```\n    \"\"\"\n"
               "    argument_parser.description = 'Summary line'\n"
               "    argument_parser.add_argument('--%s', type=str, help='the option', required=True, default='x')\n"
               "    return argument_parser\n" % name)
        files = {FILES["argparse_function"]: src}
        if st == 1:
            files[FILES["class"]] = "import os\n\nX = 1\n"
        elif st == 2:
            files[FILES["class"]] = render("class", STALE())
        fs = FS(files)
        before = fs.snapshot()
        import doctrans.conformance
        from harness.syncenv import mk_args

        undo = install(fs, *MODS)
        try:
            with redirect_stdout(io.StringIO()):
                try:
                    doctrans.conformance.ground_truth(mk_args("argparse_function", ("argparse_function", "class"), 0), FILES["argparse_function"])
                except Exception:
                    pass  # a failing conversion is acceptable; damaged files are not
        finally:
            undo()
        for f, cur in fs.files.items():
            if cur == before.get(f):
                continue
            try:
                ast.parse(cur)
            except SyntaxError:
                return False
        return True


def fault_props(k, partial, active):
    k, partial = realize((k, partial))
    with untraced():
        import doctrans.sync_properties

        files = {"/p/in.py": "class A(object):\n    a: int = 5\n    b: str = 'x'\n",
                 "/p/out.py": "import os\n\n\ndef f(a: str = 'x', b=1):\n    return a\n"}

        def run(fs):
            undo = install(fs, *MODS)
            try:
                try:
                    doctrans.sync_properties.sync_properties(False, "/p/in.py", ["A.a", "A.b"], "/p/out.py", ["f.a", "f.b"])
                except OSError as e:
                    return e
            finally:
                undo()
            return None

        ref = FS(files)
        if run(ref) is not None:
            return False
        if k >= ref.n:
            return True
        fs = FS(files, fail_at=k, partial=bool(partial))
        if run(fs) is None:
            return False
        return fs.files["/p/in.py"] == files["/p/in.py"] and _ok_after(files, ref.files, fs.files, active, fs.log)


def obligations(tier, seed):
    obs = []
    obs.append(Ob(name="success_parses", params=[("c", "int")], pre=["0 <= c < %d" % len(SP_CELLS)],
                  body="H.success_parses_idx(c)", witness=(SP_CELLS.index((1, 3, 0)),), kind="F",
                  bounds="every truth kind x both targets in any of 7 pre-states (missing, definition absent, stale, comments only without / with a "
                  "final newline, empty, statements without a final newline): a sync that succeeds leaves every file parseable and present",
                  timeout=280, funcs=["doctrans.conformance.ground_truth", "doctrans.conformance._conform_filename", "doctrans.emit.file"]))
    N = len(SYNC_TABLE)
    chunks = 3
    for ch in range(chunks):
        lo, hi = N * ch // chunks, N * (ch + 1) // chunks
        obs.append(Ob(name="cli_sync_%d" % ch, params=[("c", "int")], pre=["%d <= c < %d" % (lo, hi)], body="H.cli_sync(c, {ACTIVE})",
                      witness=(SYNC_TABLE.index((1, 7, 7, 7)) if lo <= SYNC_TABLE.index((1, 7, 7, 7)) < hi else lo,), kind="F",
                      bounds="sync argv combinations %d..%d of %d: truth kind x which file options are given x which --*-name options are given x "
                      "which given files exist (exhaustive); real ArgumentParser, in-memory FS" % (lo, hi - 1, N),
                      timeout=280 if tier == "quick" else 900, path_timeout=120, funcs=FUNCS))
    obs.append(Ob(name="cli_sync_properties", params=[("i", "bool"), ("o", "bool")], pre=[], body="H.cli_props(i, o)", witness=(True, True),
                  kind="F", bounds="sync_properties with the input / output file existing or not (4 combinations)", timeout=120, funcs=FUNCS))
    obs.append(Ob(name="cli_gen_exists", params=[("z", "bool")], pre=[], body="H.cli_gen_exists({ACTIVE})", witness=(True,), kind="F",
                  bounds="gen with an existing output file", timeout=60, funcs=FUNCS))
    obs.append(Ob(name="cli_gen_spelling", params=[("sp", "int"), ("ex", "bool")], pre=["0 <= sp <= 1"], body="H.gen_spelling(sp, ex, {ACTIVE})",
                  witness=(0, True), kind="F", bounds="gen actually run (mapping harness/gen_fixture.py, type class) with the output spelled absolutely "
                  "or via ~ (the stub's expanduser maps ~ to /home/u), existing or not: an existing output is never modified", timeout=120, funcs=FUNCS))
    for t in range(3):
        obs.append(Ob(name="fault_sync_%s" % KINDS[t], params=[("c", "int")],
                      pre=["0 <= c < %d" % len(FAULT_TABLE)], body="H.fault_sync_idx(%d, c, {ACTIVE})" % t,
                      witness=(0,), kind="S",
                      bounds="truth %s, three targets, each non-truth target in {missing, definition absent, stale}; OSError at I/O event k for every "
                      "k of the trace (the crash index is the solver variable: table of pre-states x k in 0..13 x partial; traces have <= 9 events), mid-write with half the data landed or not" % KINDS[t],
                      timeout=280 if tier == "quick" else 900, path_timeout=120, funcs=FUNCS))
        obs.append(Ob(name="fault_convert_%s" % KINDS[t], params=[("pa", "int"), ("pb", "int"), ("j", "int")],
                      pre=["0 <= pa <= 2 and 0 <= pb <= 2", "0 <= j <= 4"], body="H.fault_convert(%d, pa, pb, j, {ACTIVE})" % t,
                      witness=(2, 2, 0), kind="S",
                      bounds="truth %s; the j-th emitter call raises, j in 0..4 (symbolic); pre-states as above" % KINDS[t],
                      timeout=200 if tier == "quick" else 600, path_timeout=120, funcs=FUNCS))
    for t in range(3):
        obs.append(Ob(name="fault_format_%s" % KINDS[t], params=[("pa", "int"), ("pb", "int"), ("j", "int")],
                      pre=["0 <= pa <= 2 and 0 <= pb <= 2", "0 <= j <= 3"], body="H.fault_format(%d, pa, pb, j, {ACTIVE})" % t,
                      witness=(0, 0, 0), kind="S",
                      bounds="truth %s; the j-th call of black's format_str raises, j in 0..3 (symbolic); pre-states as above; NO tolerance "
                      "(the source is fully rendered and formatted before the file is opened)" % KINDS[t],
                      timeout=200 if tier == "quick" else 600, path_timeout=120, funcs=FUNCS))
    obs.append(Ob(name="unrenderable_name", params=[("kw", "int"), ("t", "int"), ("st", "int")],
                  pre=["0 <= kw < %d" % len(KEYWORDS), "t == 0", "0 <= st <= 2"], body="H.keyword_name(kw, t, st, {ACTIVE})", witness=(0, 0, 2),
                  kf=[("KF-C20-black-accepts-keyword-names", "kw >= 3")],
                  kind="F", bounds="an argparse truth whose option is named like a Python keyword %r synced into a class target that is missing / "
                  "lacks the definition / is stale: afterwards every file is untouched or parseable" % (KEYWORDS,), timeout=120, funcs=FUNCS))
    obs.append(Ob(name="fault_sync_properties", params=[("k", "int"), ("partial", "bool")], pre=["0 <= k <= 8"],
                  body="H.fault_props(k, partial, {ACTIVE})", witness=(0, False), kind="S",
                  bounds="sync_properties with two pairs; OSError at I/O event k (0..8, symbolic), partial write or not", timeout=120, funcs=FUNCS))
    return obs
