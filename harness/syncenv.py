"""
Shared environment for the sync family (C09, C10, C11, C20): an in-memory project on lib/fsstub.FS bound into
doctrans.emit / doctrans.conformance / doctrans.sync_properties / doctrans.__main__, and builders for project states.
The configuration vector is chosen (and exhausted) by the solver; the file contents cross ast.parse / black, so they are concrete.
"""
import ast
import io
import sys
from argparse import Namespace
from contextlib import redirect_stdout

from lib import prelude  # noqa: F401
from lib.domain import emit_kind, iface_diffs, mk_ir, parse_kind
from lib.fsstub import FS, install

import doctrans.__main__
import doctrans.conformance
import doctrans.emit
import doctrans.sync_properties
from doctrans import emit, parse
from doctrans.source_transformer import to_code

MODS = (doctrans.emit, doctrans.conformance, doctrans.sync_properties, doctrans.__main__)
KINDS = ("argparse_function", "class", "function")
FILES = {"argparse_function": "/p/argparse.py", "class": "/p/classes.py", "function": "/p/methods.py"}
NAMES = {"argparse_function": "set_cli_args", "class": "ConfigClass"}
PRE = ("missing", "empty", "absent", "stale", "agreeing", "stale_extra", "absent_nested")

class _Pool(list):
    """the three hand-picked descriptions, and - from index 100 on - the generated shapes of lib/grid.py (GRID_IDS)"""

    def __getitem__(self, i):
        if isinstance(i, int) and i >= 100:
            return lambda: mk_ir(GRID_IDS[i - 100])
        return list.__getitem__(self, i)


IRS = _Pool([
    lambda: mk_ir("p2_both_d", p="the a", d=3),
    lambda: mk_ir("p3_mixed", p="the a", d=-2),
    lambda: mk_ir("p1_ret_d", p="the a", d=2),
])


def _grid_ids():
    from lib import grid

    return [r for n, r in enumerate(grid.IDS) if r.startswith(("g1_", "g4_", "g5_")) or (r.startswith("g3_") and n % 7 == 0) or (r.startswith("g2_") and n % 23 == 0)]


GRID_IDS = _grid_ids()
STALE = lambda: mk_ir("p1_str_s", p="old text", s="old")  # noqa: E731


NESTED = ("import os\n\n\nclass Holder(object):\n    class ConfigClass(object):\n        z: int = 0\n\n    def set_cli_args(self, p):\n        return p\n\n"
          "    def train(self, a):\n        return a\n\n\nX = 1\n")


def fn_name(method):
    return "C.train" if method else "train"


def render(kind, ir, method=False):
    """source text of `ir` as the given kind (how a user / an earlier sync would have written it)"""
    if kind == "argparse_function":
        node = emit.argparse_function(ir, function_name="set_cli_args", emit_default_doc=False)
    elif kind == "class":
        node = emit.class_(ir, class_name="ConfigClass", emit_default_doc=False)
    else:
        fn = emit.function(ir, function_name="train", function_type="self" if method else "static", emit_default_doc=False)
        node = ast.ClassDef(name="C", bases=[ast.Name("object", ast.Load())], keywords=[], body=[fn], decorator_list=[], type_params=[]) if method else fn
    return to_code(ast.fix_missing_locations(ast.Module(body=[node], type_ignores=[])))


EXTRA = "/p/second_of_truth_kind.py"


def mk_args(truth, given, method, extra=False, files=None):
    files = files or FILES
    d = {"truth": truth}
    for k in KINDS:
        plural = {"argparse_function": "argparse_functions", "class": "classes", "function": "functions"}[k]
        names = {"argparse_function": "argparse_function_names", "class": "class_names", "function": "function_names"}[k]
        if k in given:
            d[plural] = [files[k]] + ([EXTRA] if (extra and k == truth) else [])
            d[names] = [fn_name(method) if k == "function" else NAMES[k]]
        else:
            d[plural] = None
            d[names] = None
    return Namespace(**d)


def project(truth, given, pre, method, ir_idx, trailing_nl=True):
    """FS with the truth file and every given target in its pre-state (pre: dict kind -> PRE index)"""
    ir = IRS[ir_idx]()
    files = {FILES[truth]: render(truth, ir, method)}
    for k in given:
        if k == truth:
            continue
        st = PRE[pre[k]]
        if st == "missing":
            continue
        if st == "empty":
            files[FILES[k]] = ""
        elif st == "absent":
            files[FILES[k]] = "import os\n\nX = 1\n"
        elif st == "absent_nested":
            # the definition is absent at module level, but definitions with the same simple names live inside another class
            files[FILES[k]] = NESTED
        elif st == "stale":
            files[FILES[k]] = render(k, STALE(), method)
        else:
            files[FILES[k]] = None if st == "agreeing" else "<extra>"  # rendered from the truth's description in build()
    return files


def run_sync(fs, truth, given, method, extra=False, files=None):
    """doctrans.conformance.ground_truth on the stub; returns (effect, stdout)"""
    undo = install(fs, *MODS)
    out = io.StringIO()
    try:
        with redirect_stdout(out):
            eff = doctrans.conformance.ground_truth(mk_args(truth, given, method, extra, files), (files or FILES)[truth])
    finally:
        undo()
    return eff, out.getvalue()


def build(truth, given, pre, method, ir_idx):
    files = project(truth, given, pre, method, ir_idx)
    todo = [k for k, v in files.items() if v is None or v == "<extra>"]
    if todo:
        # an 'agreeing' target: the truth's own description rendered as that kind (inside class C for a method) and
        # written the way sync writes files (emit.file with black)
        gold = parse_target(truth, files[FILES[truth]], method)
        gold.pop("_internal", None)
        inv = {v: k for k, v in FILES.items()}
        for f in todo:
            fs0 = FS()
            undo = install(fs0, doctrans.emit)
            text = render(inv[f], gold, method)
            if files[f] == "<extra>" and inv[f] == "class":
                # 'stale_extra': the class agrees with the truth except for ONE extra trailing, undocumented attribute
                # (same docstring, same prefix of the body, longer list)
                text = text.rstrip("\n") + "\n    zzz_extra: int = 9\n"
            try:
                emit.file(ast.parse(text), f, mode="wt", skip_black=False)
            finally:
                undo()
            files[f] = fs0.files[f]
    return FS(files)


def parse_target(kind, text, method):
    tree = ast.parse(text)
    if kind == "argparse_function":
        node = [n for n in tree.body if isinstance(n, ast.FunctionDef) and n.name == "set_cli_args"]
        return parse.argparse_ast(node[-1]) if node else None
    if kind == "class":
        node = [n for n in tree.body if isinstance(n, ast.ClassDef) and n.name == "ConfigClass"]
        return parse.class_(node[-1]) if node else None
    if method:
        cls = [n for n in tree.body if isinstance(n, ast.ClassDef) and n.name == "C"]
        node = [n for c in cls for n in c.body if isinstance(n, ast.FunctionDef) and n.name == "train"]
    else:
        node = [n for n in tree.body if isinstance(n, ast.FunctionDef) and n.name == "train"]
    return parse.function(node[-1]) if node else None
