"""
Grid obligations of the round-trip family (C01-C05, C08): the generated shapes of lib/grid.py, table-indexed by ONE symbolic int.

The hand-picked shapes of lib/domain.SHAPES keep their content symbolic (deep, narrow); the grid is the complement (broad, content
concrete): every (type, default, prose) combination for one parameter, every ordered pair of (type, default) combinations for two,
and every combination with a return entry and a **kwargs entry - pushed through the same judge() as the symbolic obligations.

Known findings: the feature predicates of harness/rt.py (TOL) are applied first.  What is left and fails on the pinned tree is listed
in /verif/grid_known.json, per (configuration, row), with the id of its known finding and a digest of the EXACT wrong outcome (the
residual difference codes and the parsed-back description).  A row whose outcome differs from the listed digest - or that is not
listed at all - is a violation; the file is written by tools/grid_known.py (by hand, reviewed) and never at check time.
"""
import hashlib
import json
import os

from lib import prelude  # noqa: F401
from lib import grid
from lib.chutil import realize, untraced
from lib.domain import DOC_KINDS, KINDS, emit_kind, mk_ir, parse_kind, roundtrip
from harness import rt as R
from lib.ob import Ob

PAIRS = [(a, b) for a in KINDS for b in KINDS if a != b]

# cfg id -> (mode, kinds (None = chosen per row), opts)
CFGS = {}
for _k in DOC_KINDS:
    CFGS["%s_T" % _k] = ("rt", (_k,), {"emit_default_doc": True})
    CFGS["%s_F" % _k] = ("rt", (_k,), {"emit_default_doc": False})
CFGS["class_T"] = ("rt", ("class",), {"emit_default_doc": True})
CFGS["class_F"] = ("rt", ("class",), {"emit_default_doc": False})
CFGS["argparse_T"] = ("rt", ("argparse",), {"emit_default_doc": True})
CFGS["argparse_F"] = ("rt", ("argparse",), {"emit_default_doc": False})
CFGS["function_A"] = ("rt", ("function",), {"emit_default_doc": True})
CFGS["function_B"] = ("rt", ("function",), {"emit_default_doc": True, "inline_types": False})
CFGS["function_C"] = ("rt", ("function",), {"emit_default_doc": True, "kwonly": True, "indent_level": 0})
CFGS["function_D"] = ("rt", ("function",), {"emit_default_doc": False, "sep_tab": False})
CFGS["method_A"] = ("rt", ("method",), {"emit_default_doc": True, "ftype": "self"})
CFGS["method_B"] = ("rt", ("method",), {"emit_default_doc": True, "ftype": "cls", "inline_types": False})
CFGS["method_C"] = ("rt", ("method",), {"emit_default_doc": True, "ftype": "self", "ftype_from_ir": True})
CFGS["chain_A"] = ("chain", None, {"emit_default_doc": True})
CFGS["chain_B"] = ("chain", None, {"emit_default_doc": True})
for _k in KINDS:
    CFGS["stab_%s" % _k] = ("stab", (_k,), {"emit_default_doc": True})
CFGS["stab_class_F"] = ("stab", ("class",), {"emit_default_doc": False})
CFGS["stab_function_F"] = ("stab", ("function",), {"emit_default_doc": False})

BY_PROP = {
    "C01": [c for c in CFGS if c.split("_")[0] in DOC_KINDS],
    "C02": ["class_T", "class_F"],
    "C03": [c for c in CFGS if c.startswith(("function_", "method_"))],
    "C04": ["argparse_T", "argparse_F"],
    "C05": ["chain_A", "chain_B"],
    "C08": [c for c in CFGS if c.startswith("stab_")],
}


def kinds_for(cfg, rid):
    mode, kinds, opts = CFGS[cfg]
    if kinds is not None:
        return kinds
    n = grid.IDS.index(rid)
    k = {"chain_A": n, "chain_B": n * 5 + 17}[cfg] % len(PAIRS)
    for step in range(len(PAIRS)):
        pair = PAIRS[(k + step) % len(PAIRS)]
        if "argparse" in pair and not grid.argparse_expressible(rid):
            continue
        return pair
    raise AssertionError


def applicable(cfg, rid, active):
    if cfg.startswith("chain_") and not rid.startswith(("g1_", "g3_", "g4_", "g5_")):
        return False  # chains: one parameter (x return entry x kwargs); the two-parameter rows are covered hop by hop
    kinds = kinds_for(cfg, rid)
    if "argparse" in kinds and not grid.argparse_expressible(rid):
        return False
    if "KF-RT-untyped-npgoogle" in active and any(k in ("numpydoc", "google") for k in kinds) and any(
            t is None for _, t, _, _ in grid.ROWS[rid][1]):
        return False  # the name line is not even written: nothing meaningful left to compare
    return True


def _digest(x):
    return hashlib.sha1(json.dumps(x, default=str).encode()).hexdigest()[:12]


def _show(art):
    import ast

    return art if isinstance(art, str) else ast.unparse(ast.fix_missing_locations(art))


def outcome(cfg, rid, active):
    """('ok', None) or ('fail', digest of the exact outcome, short description)"""
    mode, _, opts = CFGS[cfg]
    kinds = kinds_for(cfg, rid)
    ir = mk_ir(rid)
    try:
        if mode == "stab":
            kind = kinds[0]
            x1 = parse_kind(emit_kind(ir, kind, opts), kind, opts)
            x1.pop("_internal", None)
            e2 = emit_kind(x1, kind, opts)
            x2 = parse_kind(e2, kind, opts)
            x2.pop("_internal", None)
            e3 = emit_kind(x2, kind, opts)
            if R._art_eq(e2, e3, kind):
                return ("ok", None, "")
            return ("fail", _digest([_show(e2), _show(e3)]), "second and third emission differ")
        cur = ir
        for k in kinds:
            cur = roundtrip(cur, k, opts)
            cur.pop("_internal", None)
    except Exception as e:
        name = type(e).__name__
        if R.tolerated_exc(tuple(kinds), ir, name, active):
            return ("ok", None, "")
        import re

        return ("fail", "EXC:" + name, "%s: %s" % (name, re.sub(" at 0x[0-9a-f]+", "", str(e))[:80]))
    res = R.residual(cur, ir, kinds[-1], opts, active, chain=kinds[:-1])
    last = kinds[-1]
    if mode == "rt" and last in ("function", "method"):
        want_type = "static" if last == "function" else opts.get("ftype", "self")
        if cur.get("type") != want_type:
            res.append(("type", "function-kind"))
    if not res:
        return ("ok", None, "")
    cur.pop("name", None)
    return ("fail", _digest([res, cur]), "; ".join("%s: %s" % wc for wc in res))


_KNOWN = None


def known():
    global _KNOWN
    if _KNOWN is None:
        with open(os.path.join(os.path.dirname(os.path.dirname(os.path.abspath(__file__))), "grid_known.json")) as f:
            _KNOWN = json.load(f)["rows"]
    return _KNOWN


def check_row(cfg, rid, active):
    if not applicable(cfg, rid, active):
        return True
    st, dig, _ = outcome(cfg, rid, active)
    if st == "ok":
        return True
    ent = known().get("%s|%s" % (cfg, rid))
    return ent is not None and ent[0] in active and ent[1] == dig


def chunks(tier, cfg):
    ids = grid.select(tier, salt=sorted(CFGS).index(cfg))
    size = 120 if tier == "quick" else 300
    return [ids[i:i + size] for i in range(0, len(ids), size)]


def grid_ob(tier_quick, cfg, chunk, i, active):
    """row i of the chunk: realised (the solver enumerates the index), then run at full speed"""
    i = realize(i)
    with untraced():
        rid = chunks("quick" if tier_quick else "thorough", cfg)[chunk][i]
        return check_row(cfg, rid, active)


def obligations(prop, tier, funcs):
    obs = []
    for cfg in BY_PROP[prop]:
        for c, ids in enumerate(chunks(tier, cfg)):
            mode, kinds, opts = CFGS[cfg]
            obs.append(Ob(
                name="grid_%s_%d" % (cfg, c), params=[("i", "int")], pre=["0 <= i < %d" % len(ids)],
                body="H.grid_ob(%r, %r, %d, i, {ACTIVE})" % (tier == "quick", cfg, c), witness=(0,), kind="F",
                bounds="generated shapes %s..%s (%d rows of lib/grid.py, table-indexed; content concrete); %s over %s, options %r; rows listed in "
                "grid_known.json must reproduce exactly the listed outcome" % (
                    ids[0], ids[-1], len(ids), mode, "/".join(kinds) if kinds else "a pair of kinds chosen per row (all 42 ordered pairs occur)", opts),
                timeout=300 if tier == "quick" else 1200, path_timeout=100, funcs=list(funcs)))
    return obs
