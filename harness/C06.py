"""
C06 - emitted code is valid Python that behaves as the IR says.

(S) binding models: the emitted ast.arguments / ClassDef body / add_argument keywords are read by small reference models of
    Python's own rules; content symbolic.
(F) interpreter-judged: compile + exec the unparsed artefact, inspect.signature / class __dict__ + __annotations__ / a real
    ArgumentParser's actions; unparse/re-parse and emit.file (black on/off, in-memory FS) give the same tree.  Values are
    realised (solver-enumerated finite domain).
"""
import argparse
import ast
import inspect
import typing

from harness.rt import *  # noqa: F401,F403
from harness.rt import TOL, mk_ob, tolerated
from lib.chutil import realize, untraced
from lib.domain import SHAPES, ZERO, _is_none, emit_kind, mk_ir, same_default
from lib.fsstub import FS

import doctrans.emit
from doctrans.ast_utils import NoneStr
from doctrans.source_transformer import to_code

FUNCS = [
    "doctrans.emit.function", "doctrans.emit.class_", "doctrans.emit.argparse_function", "doctrans.emit.file",
    "doctrans.ast_utils.param2ast", "doctrans.ast_utils.param2argparse_param", "doctrans.ast_utils.set_value",
    "doctrans.ast_utils.set_arg", "doctrans.emitter_utils.to_docstring", "doctrans.source_transformer.to_code",
]
ASSUMPTIONS = [
    "reference models of Python's binding rules (positional defaults right-aligned, kw_defaults 1:1, kwarg -> VAR_KEYWORD) are "
    "validated against inspect.signature on every (F) run; every counterexample is replayed against the interpreter",
    "exec namespace: typing names, `np`/`tf` bound to dummies; third-party semantics outside the claim",
    "black is run for real but untraced on realised text ((F) obligations); formatting beyond 'output parses to the same tree' is outside",
]

_EMPTY = inspect.Parameter.empty


class _Dummy:
    def __getattr__(self, n):
        return _Dummy()

    def __call__(self, *a, **k):
        return _Dummy()

    def __getitem__(self, k):
        return _Dummy()

    def __eq__(self, o):
        return isinstance(o, _Dummy)

    def __hash__(self):
        return 0


def _ns():
    ns = {k: getattr(typing, k) for k in ("Optional", "List", "Literal", "Union", "Tuple", "Any", "Dict")}
    ns.update({"np": _Dummy(), "tf": _Dummy(), "foo": _Dummy(), "ArgumentParser": argparse.ArgumentParser, "loads": __import__("json").loads})
    return ns


def _want_default(e):
    if "default" not in e:
        return _EMPTY
    d = e["default"]
    return None if _is_none(d) else d


def _code(d):
    return isinstance(d, str) and len(d) > 6 and d.startswith("```") and d.endswith("```")


# ------------------------------------------------------------------------------------------------ (S) binding models
def fn_model(fd):
    """what Python binds for this FunctionDef: [(name, kind, default_node|_EMPTY, annotation_node|None)]"""
    a = fd.args
    out = []
    npos = len(a.args)
    nd = len(a.defaults)
    if nd > npos:
        return None  # SyntaxError: more defaults than positional parameters
    for i, arg in enumerate(a.args):
        j = i - (npos - nd)
        out.append((arg.arg, "pos", a.defaults[j] if j >= 0 else _EMPTY, arg.annotation))
    if len(a.kw_defaults) != len(a.kwonlyargs):
        return None
    for arg, dflt in zip(a.kwonlyargs, a.kw_defaults):
        out.append((arg.arg, "kwonly", _EMPTY if dflt is None else dflt, arg.annotation))
    if a.kwarg is not None:
        out.append((a.kwarg.arg, "varkw", _EMPTY, a.kwarg.annotation))
    return out


def _const_matches(node, want, diffs, where):
    if want is _EMPTY:
        if node is not _EMPTY:
            if isinstance(node, ast.Constant) and node.value is None:
                diffs.append((where, "default-invented-none"))
            else:
                diffs.append((where, "default-invented-other"))
        return
    if node is _EMPTY:
        diffs.append((where, "default-lost"))
        return
    if _code(want):
        if isinstance(node, ast.Constant):
            diffs.append((where, "code-default-as-str"))
        return
    if not isinstance(node, ast.Constant):
        diffs.append((where, "default-not-constant"))
        return
    v = node.value
    if want is None:
        if v is not None:
            diffs.append((where, "default-value"))
    elif type(v) is not type(want) or v != want:
        diffs.append((where, "default-value"))


def fn_binding(kind, shape_id, opts, active, p=None, d=None, s=None, b=None):
    ir = mk_ir(shape_id, p, d, s, b)
    fd = emit_kind(ir, kind, opts)
    m = fn_model(fd)
    if m is None:
        return False
    first = None if kind == "function" else opts.get("ftype", "self")
    if first:
        if not m or m[0][0] != first or m[0][1] != "pos":
            return False
        m = m[1:]
    diffs = []
    names = [x[0] for x in m]
    if names != list(ir["params"].keys()):
        diffs.append(("params", "names"))
    else:
        for (n, k, dn, an), (wn, e) in zip(m, ir["params"].items()):
            if wn.endswith("kwargs"):
                if k != "varkw":
                    diffs.append((wn, "kind"))
                continue
            if k != ("kwonly" if opts.get("kwonly") else "pos"):
                diffs.append((wn, "kind"))
            _const_matches(dn, _want_default(e), diffs, wn)
            if opts.get("inline_types", True):
                wt = e.get("typ")
                got = None if an is None else ast.unparse(an)
                if (wt or None) != got and not (wt is not None and got is not None and ast.unparse(ast.parse(wt)) == got):
                    diffs.append((wn, "annotation"))
            elif an is not None:
                diffs.append((wn, "annotation"))
    wr = (ir.get("returns") or {}).get("return_type") or {}
    if opts.get("inline_types", True):
        got = None if fd.returns is None else ast.unparse(fd.returns)
        wt = wr.get("typ")
        if (wt or None) != got and not (wt and got and ast.unparse(ast.parse(wt)) == got):
            diffs.append(("returns", "annotation"))
    return all(tolerated(kind, w, c, ir, opts, active) for w, c in diffs)


def cls_binding(shape_id, opts, active, p=None, d=None, s=None, b=None):
    ir = mk_ir(shape_id, p, d, s, b)
    cd = emit_kind(ir, "class", opts)
    body = [n for n in cd.body if isinstance(n, (ast.AnnAssign, ast.Assign))]
    want = list(ir["params"].items())
    if ir.get("returns"):
        want.append(("return_type", ir["returns"]["return_type"]))
    diffs = []
    if [n.target.id if isinstance(n, ast.AnnAssign) else None for n in body] != [n for n, _ in want]:
        diffs.append(("params", "names"))
    else:
        for node, (n, e) in zip(body, want):
            wd = _want_default(e)
            if wd is _EMPTY:
                base = e.get("typ") or ""
                wd = ZERO[base] if base in ZERO else None  # I3(class)
            _const_matches(node.value if node.value is not None else _EMPTY, wd, diffs, n)
            wt = e.get("typ")
            got = ast.unparse(node.annotation)
            if wt is None:
                if got not in ("object",) and not ("default" in e and got == type(e["default"]).__name__):
                    diffs.append((n, "annotation"))
            elif wt != got and ast.unparse(ast.parse(wt)) != got:
                diffs.append((n, "annotation"))
    return all(tolerated("class", w, c, ir, opts, active) for w, c in diffs)


# ------------------------------------------------------------------------------------------------ (F) interpreter-judged
def _exec(node):
    mod = ast.Module(body=[node], type_ignores=[])
    src = to_code(mod)
    code = compile(src, "<emitted>", "exec")  # SyntaxError here is a violation
    ns = _ns()
    exec(code, ns)
    # unparse / re-parse stability (a Constant(-5) legitimately re-parses as UnaryOp: compare after one trip)
    t1 = ast.parse(src)
    t2 = ast.parse(to_code(t1))
    if ast.dump(t1) != ast.dump(t2):
        raise AssertionError("unparse/re-parse is not stable")
    if not _tree_identity(node, t1.body[0]):
        raise TreeMismatch("the emitted tree is not the tree of its own source text")
    return ns, src, t1


class TreeMismatch(Exception):
    pass


class _Neg(ast.NodeTransformer):
    """the parser's form of a negative number: UnaryOp(USub, Constant(abs)) (the only node the unparser writes differently)"""

    def visit_Constant(self, n):
        if type(n.value) in (int, float) and (n.value < 0 or (n.value == 0 and str(n.value).startswith("-"))):
            return ast.UnaryOp(op=ast.USub(), operand=ast.Constant(value=-n.value, kind=None))
        return n


def _tree_eq(a, b):
    if isinstance(a, ast.AST):
        if type(a) is not type(b):
            return False
        for f in a._fields:
            if f in ("kind", "type_comment", "type_params", "ctx"):
                continue
            if not _tree_eq(getattr(a, f, None), getattr(b, f, None)):
                return False
        return True
    if isinstance(a, (list, tuple)) or isinstance(b, (list, tuple)):
        a, b = list(a or ()), list(b or ())
        return len(a) == len(b) and all(_tree_eq(x, y) for x, y in zip(a, b))
    return type(a) is type(b) and a == b


def _tree_identity(node, reparsed):
    """C06: 'survives unparse/re-parse with an identical syntax tree' - the EMITTED tree against the tree of its own text"""
    from copy import deepcopy

    return _tree_eq(_Neg().visit(deepcopy(node)), reparsed)


def _norm_docstrings(tree):
    """docstring constants modulo the whitespace black rewrites (trailing blanks, indentation of continuation lines)"""
    for n in ast.walk(tree):
        if isinstance(n, (ast.Module, ast.ClassDef, ast.FunctionDef)) and n.body and isinstance(n.body[0], ast.Expr) \
                and isinstance(n.body[0].value, ast.Constant) and isinstance(n.body[0].value.value, str):
            n.body[0].value.value = "\n".join(l.strip() for l in n.body[0].value.value.strip().split("\n"))
    return tree


def _file_same_tree(node, t1, active=()):
    for skip_black in (True, False):
        fs = FS()
        old = doctrans.emit.__dict__.get("open")
        doctrans.emit.open = fs.open
        try:
            doctrans.emit.file(node, "/p/out.py", mode="wt", skip_black=skip_black)
        finally:
            if old is None:
                del doctrans.emit.open
            else:
                doctrans.emit.open = old
        got = ast.parse(fs.files["/p/out.py"])
        if ast.dump(got) != ast.dump(t1):
            if skip_black or "KF-C06-black-docstring" not in active:
                return False
            if ast.dump(_norm_docstrings(got)) != ast.dump(_norm_docstrings(ast.parse(ast.unparse(t1)))):
                return False
    return True


def exec_fn(kind, shape_id, opts, active, p=None, d=None, s=None, b=None):
    p, d, s, b = realize((p, d, s, b))
    with untraced():
        ir = mk_ir(shape_id, p, d, s, b)
        fd = emit_kind(ir, kind, opts)
        ns, src, t1 = _exec(fd)
        sig = inspect.signature(ns["f"])
        # the reference model agrees with the interpreter (validation of the (S) oracle)
        m = fn_model(fd)
        if [x[0] for x in m] != list(sig.parameters):
            raise AssertionError("binding model disagrees with inspect.signature")
        ps = list(sig.parameters.values())
        first = None if kind == "function" else opts.get("ftype", "self")
        if first:
            if ps[0].name != first:
                return False
            ps = ps[1:]
        diffs = []
        if [q.name for q in ps] != list(ir["params"]):
            diffs.append(("params", "names"))
        else:
            for q, (n, e) in zip(ps, ir["params"].items()):
                if n.endswith("kwargs"):
                    if q.kind is not q.VAR_KEYWORD:
                        diffs.append((n, "kind"))
                    continue
                if q.kind is not (q.KEYWORD_ONLY if opts.get("kwonly") else q.POSITIONAL_OR_KEYWORD):
                    diffs.append((n, "kind"))
                wd = _want_default(e)
                if wd is _EMPTY:
                    if q.default is not _EMPTY:
                        diffs.append((n, "default-invented-none" if q.default is None else "default-invented-other"))
                elif q.default is _EMPTY:
                    diffs.append((n, "default-lost"))
                elif _code(wd):
                    if isinstance(q.default, str):
                        diffs.append((n, "code-default-as-str"))
                elif not (type(q.default) is type(wd) and q.default == wd):
                    diffs.append((n, "default-value"))
                if opts.get("inline_types", True) and e.get("typ") is not None and q.annotation is _EMPTY:
                    diffs.append((n, "annotation"))
        ok = all(tolerated(kind, w, c, ir, opts, active) for w, c in diffs)
        return ok and _file_same_tree(fd, t1, active)


def exec_cls(shape_id, opts, active, p=None, d=None, s=None, b=None):
    p, d, s, b = realize((p, d, s, b))
    with untraced():
        ir = mk_ir(shape_id, p, d, s, b)
        cd = emit_kind(ir, "class", opts)
        ns, src, t1 = _exec(cd)
        K = ns["K"]
        want = list(ir["params"].items())
        if ir.get("returns"):
            want.append(("return_type", ir["returns"]["return_type"]))
        diffs = []
        attrs = [k for k in K.__dict__ if not k.startswith("__")]
        if attrs != [n for n, _ in want] or list(K.__annotations__) != attrs:
            diffs.append(("params", "names"))
        else:
            for n, e in want:
                wd = _want_default(e)
                if wd is _EMPTY:
                    base = e.get("typ") or ""
                    wd = ZERO[base] if base in ZERO else None
                v = K.__dict__[n]
                if _code(wd):
                    if isinstance(v, str):
                        diffs.append((n, "code-default-as-str"))
                elif not (type(v) is type(wd) and v == wd):
                    diffs.append((n, "default-value"))
        ok = all(tolerated("class", w, c, ir, opts, active) for w, c in diffs)
        return ok and _file_same_tree(cd, t1, active)


SCALAR = {"int": int, "float": float, "str": str, "bool": bool, "complex": complex}


def exec_argparse(shape_id, opts, active, p=None, d=None, s=None, b=None):
    p, d, s, b = realize((p, d, s, b))
    with untraced():
        ir = mk_ir(shape_id, p, d, s, b)
        fd = emit_kind(ir, "argparse", opts)
        ns, src, t1 = _exec(fd)
        parser = argparse.ArgumentParser()
        ns["set_cli_args"](parser)
        diffs = []
        if (parser.description or "") != ir["doc"]:
            diffs.append(("summary", "summary"))
        acts = [a for a in parser._actions if a.dest != "help"]
        if [a.dest for a in acts] != list(ir["params"]):
            diffs.append(("params", "names"))
        else:
            for a, (n, e) in zip(acts, ir["params"].items()):
                t = e.get("typ") or ""
                inner = t[len("Optional["):-1] if t.startswith("Optional[") else t
                if a.option_strings != ["--" + n]:
                    diffs.append((n, "option"))
                if inner in SCALAR and inner != "str" and a.type is not SCALAR[inner]:
                    diffs.append((n, "type"))
                if inner.startswith("Literal["):
                    if list(a.choices or ()) != list(ast.literal_eval(inner[len("Literal"):])):
                        diffs.append((n, "choices"))
                if inner.startswith("List[") and type(a).__name__ != "_AppendAction":
                    diffs.append((n, "action"))
                wd = _want_default(e)
                if wd is not _EMPTY and wd is not None:
                    if not (type(a.default) is type(wd) and a.default == wd):
                        diffs.append((n, "default-value"))
                if t.startswith("Optional[") and a.required:
                    diffs.append((n, "required"))
                if e.get("doc") and not (a.help or "").startswith(e["doc"].rstrip(".,")):
                    diffs.append((n, "help"))
        ok = all(tolerated("argparse", w, c, ir, opts, active) for w, c in diffs)
        return ok and _file_same_tree(fd, t1, active)


TOL["KF-C06-code-default-as-str"] = lambda k, w, c, ir, o: k in ("function", "method", "class") and c == "code-default-as-str"

FN_SHAPES = ["p1_optint_d", "p1_optbool_f", "p1_optfloat_z", "p1_unionnum_d", "p1_int", "p1_int_d", "p1_str_s", "p1_bool_b", "p1_float", "p1_optint_none", "p1_literal", "p1_list", "p1_dotted",
             "p2_d_then_plain", "p2_plain_then_d", "p2_both_d", "p1_ret", "p1_ret_d", "p1_kwargs", "p0", "p3_mixed", "p1_code",
             "p1_untyped_d"]
ARG_SHAPES = ["p1_optint_d", "p1_optbool_f", "p2_d_then_optd", "p1_int", "p1_int_d", "p1_str_s", "p1_bool_b", "p1_float", "p1_optint_none", "p1_optstr_s", "p1_list", "p1_literal",
              "p2_d_then_plain", "p2_plain_then_d", "p1_kwargs", "p0", "p3_mixed"]


GRID_CFGS = {
    "execfn_A": ("exec_fn", "function", {"inline_types": True, "kwonly": False, "indent_level": 1}),
    "execfn_B": ("exec_fn", "method", {"inline_types": True, "kwonly": True, "indent_level": 2}),
    "execfn_C": ("exec_fn", "method", {"inline_types": False, "kwonly": False, "indent_level": 0, "ftype": "cls"}),
    "bindfn_A": ("fn_binding", "function", {"inline_types": True, "kwonly": False, "indent_level": 1}),
    "bindfn_D": ("fn_binding", "function", {"inline_types": False, "kwonly": True, "indent_level": 1}),
    "execcls": ("exec_cls", None, {"emit_default_doc": True}),
    "bindcls": ("cls_binding", None, {"emit_default_doc": False}),
    "execarg": ("exec_argparse", None, {"emit_default_doc": True}),
}


def grid_known_region(cfg, rid, active):
    """id of the open known finding whose region holds this generated row under this configuration, or None"""
    from lib import grid as G
    from lib.domain import ABSENT
    from doctrans.ast_utils import NoneStr

    _, params, ret = G.ROWS[rid]
    es = [(t, d) for _, t, _, d in params] + ([(ret[0], ret[2])] if ret else [])
    code = lambda d: isinstance(d, str) and d.startswith("```") and d != NoneStr  # noqa: E731
    if cfg in ("execcls", "bindcls"):
        if any(t in ("int", "str", "float", "bool") and d == NoneStr for t, d in es):
            return "KF-RT-class-none-to-zero"
        if any(isinstance(d, str) and d == "" and t not in ("str", None) for t, d in es):
            return "KF-RT-class-empty-str-to-none"
    if cfg == "execarg" and any(code(d) for t, d in es):
        return "KF-C06-code-default-as-str"
    return None


def grid_rows(tier, cfg):
    from lib import grid as G

    ids = [r for r in G.select(tier, salt=sorted(GRID_CFGS).index(cfg)) if cfg != "execarg" or G.argparse_expressible(r)]
    size = 120 if tier == "quick" else 300
    return [ids[i:i + size] for i in range(0, len(ids), size)]


def grid_ob(quick, cfg, chunk, i, active):
    i = realize(i)
    with untraced():
        rid = grid_rows("quick" if quick else "thorough", cfg)[chunk][i]
        kid = grid_known_region(cfg, rid, active)
        if kid is not None and kid in active:
            return True
        fn, kind, opts = GRID_CFGS[cfg]
        f = globals()[fn]
        return f(kind, rid, opts, active) if kind else f(rid, opts, active)


def obligations(tier, seed):
    obs = []
    for cfg in GRID_CFGS:
        for c, ids in enumerate(grid_rows(tier, cfg)):
            obs.append(Ob(name="grid_%s_%d" % (cfg, c), params=[("i", "int")], pre=["0 <= i < %d" % len(ids)],
                          body="H.grid_ob(%r, %r, %d, i, {ACTIVE})" % (tier == "quick", cfg, c), witness=(0,), kind="F",
                          bounds="generated shapes %s..%s (%d rows of lib/grid.py, table-indexed, content concrete); %s %s options %r; rows in the "
                          "region of an open known finding (grid_known_region) are skipped" % (ids[0], ids[-1], len(ids), GRID_CFGS[cfg][0],
                                                                                             GRID_CFGS[cfg][1] or "", GRID_CFGS[cfg][2]),
                          timeout=300 if tier == "quick" else 1200, path_timeout=100, funcs=FUNCS))
    grid = [
        ("function", {"inline_types": True, "kwonly": False, "indent_level": 1}),
        ("method", {"inline_types": True, "kwonly": True, "indent_level": 2}),
        ("method", {"inline_types": False, "kwonly": False, "indent_level": 0, "ftype": "cls"}),
        ("function", {"inline_types": False, "kwonly": True, "indent_level": 1}),
    ]
    fixed = {"p": "the a b"}
    for kind, o in (("method", {"inline_types": True, "kwonly": True, "indent_level": 1, "ftype_from_ir": True}),
                    ("method", {"inline_types": True, "kwonly": False, "indent_level": 1, "ftype": "cls", "ftype_from_ir": True}),
                    ("function", {"inline_types": True, "kwonly": False, "indent_level": 1, "ftype_from_ir": True})):
        obs.append(mk_ob("bind", "fn_binding", kind, "p1_int_d", o, tier, funcs=FUNCS, pl=1))
        obs.append(mk_ob("exec", "exec_fn", kind, "p1_int_d", o, tier, funcs=FUNCS, kind="F", fixed=fixed))
    for i, sid in enumerate(FN_SHAPES):
        for j, (kind, o) in enumerate(grid):
            if tier == "quick" and (i + j) % 4 != 0 and sid not in ("p2_plain_then_d", "p1_kwargs"):
                continue
            obs.append(mk_ob("bind", "fn_binding", kind, sid, o, tier, funcs=FUNCS, pl=1))
            if tier != "quick" or (i + j) % 8 == 0 or sid in ("p1_int_d", "p1_str_s"):
                obs.append(mk_ob("exec", "exec_fn", kind, sid, o, tier, funcs=FUNCS, kind="F", fixed=fixed, str_alpha="STR_T"))
    for sid in FN_SHAPES:
        for dd in (True, False):
            if tier == "quick" and dd is False and sid not in ("p1_int_d",):
                continue
            ob = mk_ob("bind", "cls_binding", "class", sid, {"emit_default_doc": dd}, tier, funcs=FUNCS, pl=1)
            ob.body = ob.body.replace("H.cls_binding('class', ", "H.cls_binding(")
            obs.append(ob)
        if tier != "quick" or sid in ("p1_int_d", "p1_str_s", "p1_code", "p1_untyped_d", "p1_ret_d", "p1_optint_d", "p1_optbool_f"):
            ob = mk_ob("exec", "exec_cls", "class", sid, {"emit_default_doc": True}, tier, funcs=FUNCS, kind="F", fixed=fixed, str_alpha="STR_T")
            ob.body = ob.body.replace("H.exec_cls('class', ", "H.exec_cls(")
            obs.append(ob)
    for sid in ARG_SHAPES:
        if tier == "quick" and sid not in ("p1_int_d", "p1_str_s", "p1_literal", "p1_list", "p1_optint_none", "p1_kwargs", "p3_mixed", "p1_bool_b",
                                           "p1_optint_d", "p1_optbool_f", "p2_d_then_optd"):
            continue
        ob = mk_ob("exec", "exec_argparse", "argparse", sid, {"emit_default_doc": True}, tier, funcs=FUNCS, kind="F", fixed=fixed, str_alpha="STR_T")
        ob.body = ob.body.replace("H.exec_argparse('argparse', ", "H.exec_argparse(")
        obs.append(ob)
    return obs
