"""
C07 - parsing user-written code is faithful to Python's own view of it.

The definition is built directly as ast.FunctionDef / ClassDef objects (as ast.parse would produce them); its *configuration*
(number of positional parameters, how many carry defaults, keyword-only parameters and which of them carry defaults, **kwargs,
self/cls/static, docstring style, which parameters are documented and in which order) is chosen by the solver; in the (S)
obligations the default values themselves are symbolic ints.  Oracle: a reference model of Python's signature binding applied
to the *input* definition (validated against inspect.signature on replay).
"""
import ast
import inspect
import itertools

from lib import prelude  # noqa: F401
from lib.chutil import realize, untraced
from lib.ob import Ob, ZOb
import subprocess
import sys

from doctrans import parse

FUNCS = ["doctrans.parse.function", "doctrans.parse.class_", "doctrans.parse._merge_inner_function", "doctrans.parser_utils.ir_merge",
         "doctrans.parser_utils._join_non_none", "doctrans.parser_utils._interpolate_return", "doctrans.ast_utils.func_arg2param",
         "doctrans.ast_utils.get_function_type", "doctrans.docstring_parsers.parse_docstring"]
ASSUMPTIONS = [
    "supported subset per the property: positional, keyword-only and **kwargs parameters; no positional-only, no *args",
    "in-memory objects (parse.function(FunctionType), inspect.getsource) are outside the claim - they need real files",
    "docstrings are written by the harness from fixed templates in the three styles, without default sentences (defaults come from the signature)",
]
POS = ("a", "b", "c")
KWO = ("k", "m")
ANN = {"a": "int", "b": "str", "c": None, "k": "float", "m": None}
PROSE = {"a": "the a", "b": "the b", "c": "the c", "k": "the k", "m": "the m", "kw": "extra options"}
DOCTYPE = {"a": "int", "b": "str", "c": "bool", "k": "float", "m": "int", "kw": "dict"}
_EMPTY = inspect.Parameter.empty


def mk_doc(style, names):
    if not names:
        return "Summary line"
    if style == 0:
        return "Summary line\n\n" + "\n".join(":param %s: %s" % (n, PROSE[n]) for n in names)
    if style == 1:
        return "Summary line\n\nParameters\n----------\n" + "\n".join("%s : %s\n    %s" % (n, DOCTYPE[n], PROSE[n]) for n in names) + "\n"
    return "Summary line\n\nArgs:\n" + "\n".join("  %s (%s): %s" % (n, DOCTYPE[n], PROSE[n]) for n in names) + "\n"


def mk_fn(npos, nd, nkw, kwmask, has_kw, first, style, documented, dvals, name="f"):
    """FunctionDef as ast.parse would build it"""
    pos = list(POS[:npos])
    args = ([ast.arg(arg=("self", "cls")[first - 1], annotation=None)] if first else []) + [
        ast.arg(arg=n, annotation=ast.Name(ANN[n], ast.Load()) if ANN[n] else None) for n in pos]
    defaults = [ast.Constant(value=dvals[i], kind=None) for i in range(nd)]
    kwo = list(KWO[:nkw])
    kw_defaults = [ast.Constant(value=dvals[3 + i], kind=None) if (kwmask >> i) & 1 else None for i in range(nkw)]
    body = [ast.Expr(value=ast.Constant(value=mk_doc(style, documented), kind=None)), ast.Pass()]
    return ast.FunctionDef(
        name=name,
        args=ast.arguments(posonlyargs=[], args=args, vararg=None,
                           kwonlyargs=[ast.arg(arg=n, annotation=ast.Name(ANN[n], ast.Load()) if ANN[n] else None) for n in kwo],
                           kw_defaults=kw_defaults, kwarg=ast.arg(arg="kw", annotation=None) if has_kw else None, defaults=defaults),
        body=body, decorator_list=[], returns=None, type_comment=None, type_params=[], lineno=1, col_offset=0)


def model(fd):
    """what Python binds: [(name, default_value|_EMPTY, annotation_str|None, kind)] minus self/cls"""
    a = fd.args
    out = []
    npos, nd = len(a.args), len(a.defaults)
    for i, arg in enumerate(a.args):
        j = i - (npos - nd)
        out.append((arg.arg, a.defaults[j].value if j >= 0 else _EMPTY, arg.annotation.id if arg.annotation else None, "pos"))
    for arg, d in zip(a.kwonlyargs, a.kw_defaults):
        out.append((arg.arg, _EMPTY if d is None else d.value, arg.annotation.id if arg.annotation else None, "kwonly"))
    if a.kwarg is not None:
        out.append((a.kwarg.arg, _EMPTY, None, "varkw"))
    if out and out[0][0] in ("self", "cls"):
        out = out[1:]
    return out


def judge(ir, fd, documented, style, active):
    """'' or the first disagreement between the parsed interface and Python's view of the definition"""
    m = model(fd)
    names = [x[0] for x in m]
    got = list(ir["params"].keys())
    if sorted(got) != sorted(names):
        missing = [n for n in names if n not in got]
        if missing == ["kw"] and len(got) == len(names) - 1 and "KF-C07-kwarg-dropped" in active and "kw" not in documented:
            names = [n for n in names if n != "kw"]
            m = [x for x in m if x[0] != "kw"]
        else:
            return "parameters %r != %r" % (got, names)
    if got != names:
        # known finding: documented parameters first (docstring order), then the rest in source order, a documented **kw last.
        # ONLY that exact order is tolerated - any other order is a violation.
        if not ("KF-C07-doc-order" in active and got == _doc_first_order(names, documented)):
            return "order %r != %r" % (got, names)
    for n, dflt, ann, kind in m:
        e = ir["params"][n]
        if kind == "varkw":
            continue
        if dflt is _EMPTY:
            if "default" in e and not ("KF-RT-np-force-default" in active and style in (1, 2)):
                return "%s: invented default %r" % (n, e.get("default"))
        else:
            if "default" not in e or type(e["default"]) is not type(dflt) or e["default"] != dflt:
                return "%s: default %r != %r" % (n, e.get("default"), dflt)
        wt = DOCTYPE[n] if (n in documented and style in (1, 2)) else ann  # documented information takes precedence
        if wt is not None and e.get("typ") != wt:
            if not (wt == ann and n in documented and style == 0):
                return "%s: typ %r != %r" % (n, e.get("typ"), wt)
            if e.get("typ") != wt:
                return "%s: typ %r != %r" % (n, e.get("typ"), wt)
        if n in documented:
            if e.get("doc") != PROSE[n]:
                return "%s: prose %r != %r" % (n, e.get("doc"), PROSE[n])
        elif e.get("doc"):
            return "%s: prose %r attached to an undocumented parameter" % (n, e.get("doc"))
    return ""


def _doc_first_order(names, documented):
    doc = [n for n in documented if n in names and n != "kw"]
    return doc + [n for n in names if n not in doc and n != "kw"] + (["kw"] if "kw" in names else [])


def _doc_order_region(names, documented):
    """docstring order differs from source order, or a documented parameter follows an undocumented one in the source"""
    doc = [n for n in documented if n in names]
    src_doc = [n for n in names if n in doc]
    if doc != src_doc:
        return True
    seen_undoc = False
    for n in names:
        if n not in doc:
            seen_undoc = True
        elif seen_undoc:
            return True
    return False


def _documented(names, docmask, perm):
    sel = [n for i, n in enumerate(names) if (docmask >> i) & 1]
    perms = list(itertools.permutations(sel))
    return list(perms[perm % len(perms)])


def configs(mp, mkw, mperm):
    """the valid configuration vectors (npos, nd, nkw, kwmask, has_kw, docmask, perm) within the bounds"""
    out = []
    for npos in range(mp + 1):
        for nd in range(npos + 1):
            for nkw in range(mkw + 1):
                for kwmask in range(2 ** nkw):
                    for has_kw in (0, 1):
                        n = npos + nkw + has_kw
                        for docmask in range(2 ** n):
                            k = bin(docmask).count("1")
                            nperm = 1
                            for i in range(2, k + 1):
                                nperm *= i
                            for perm in range(min(nperm, mperm)):
                                out.append((npos, nd, nkw, kwmask, has_kw, docmask, perm))
    return out


CONFIGS = {"quick": configs(2, 1, 2), "thorough": configs(3, 2, 2)}


def config_idx(style, first, tier, c, active):
    """(F): the configuration vector is table entry c, c chosen (and exhausted) by the solver"""
    c = realize(c)
    return config(style, first, *CONFIGS[tier][c], active)


def config(style, first, npos, nd, nkw, kwmask, has_kw, docmask, perm, active):
    """(F): whole configuration chosen by the solver, values concrete and distinct"""
    with untraced():
        names = list(POS[:npos]) + list(KWO[:nkw]) + (["kw"] if has_kw else [])
        documented = _documented(names, docmask, perm)
        fd = mk_fn(npos, nd, nkw, kwmask, has_kw, first, style, documented, (11, 12, 13, 21, 22))
        try:
            ir = parse.function(fd)
        except AssertionError:
            if "KF-C07-kwarg-untyped-assert" in active and style == 0 and "kw" in documented:
                return True
            raise
        r = judge(ir, fd, documented, style, active)
        if r:
            return False
        want_type = ("static", "self", "cls")[first]
        return ir.get("type") == want_type and ir.get("name") == "f"


def cls_config_idx(style, c, active):
    """class K merged with an __init__ whose whole configuration (positional / keyword-only / **kw, defaults, documented subset and
    order) is table entry c of the quick table - including an __init__ whose parameters after self are ALL keyword-only"""
    c = realize(c)
    with untraced():
        npos, nd, nkw, kwmask, has_kw, docmask, perm = CONFIGS["quick"][c]
        names = list(POS[:npos]) + list(KWO[:nkw]) + (["kw"] if has_kw else [])
        documented = _documented(names, docmask, perm)
        if style == 0 and "kw" in documented:
            return True  # ReST carries no type for kw: KF-C07-kwarg-untyped-assert region, exercised by config_*
        init = mk_fn(npos, nd, nkw, kwmask, bool(has_kw), 1, 0, [], (11, 12, 13, 21, 22), name="__init__")
        init.body = [ast.Pass()]
        cd = ast.ClassDef(name="K", bases=[], keywords=[], decorator_list=[], type_params=[], lineno=1, col_offset=0,
                          body=[ast.Expr(value=ast.Constant(value=mk_doc(style, documented).replace(":param", ":cvar"), kind=None)), init])
        ir = parse.class_(cd, merge_inner_function="__init__")
        m = model(init)
        got = list(ir["params"].keys())
        if has_kw and "kw" not in documented and "KF-C07-kwarg-dropped" in active:
            m = [x for x in m if x[0] != "kw"]
        if sorted(got) != sorted(x[0] for x in m):
            return False
        names_m = [x[0] for x in m]
        known = [n for n in documented if n in names_m] + [n for n in names_m if n not in documented]
        if got != names_m and not ("KF-C07-doc-order" in active and got == known):
            return False
        for n, dflt, ann, kind in m:
            e = ir["params"][n]
            if dflt is not _EMPTY and not ("default" in e and e["default"] == dflt and type(e["default"]) is type(dflt)):
                return False
            if n in documented and e.get("doc") != PROSE[n]:
                return False
        return True


def values(style, first, nd, kwmask, documented, active, d0, d1, d2, d3):
    """(S): fixed shape a,b,c / k,m ; the default values are symbolic ints"""
    fd = mk_fn(3, nd, 2, kwmask, False, first, style, list(documented), (d0, d1, d2, d3, d3))
    ir = parse.function(fd)
    return judge(ir, fd, list(documented), style, active) == ""


def cls_merge(style, npos, nd, docmask, active, has_kw=0, doc_kw=0):
    """class merged with its __init__: documented information first, signature fills the gaps, nothing dropped or duplicated"""
    style, npos, nd, docmask, has_kw, doc_kw = realize((style, npos, nd, docmask, has_kw, doc_kw))
    with untraced():
        names = list(POS[:npos])
        documented = [n for i, n in enumerate(names) if (docmask >> i) & 1] + (["kw"] if (has_kw and doc_kw) else [])
        init = mk_fn(npos, nd, 0, 0, bool(has_kw), 1, 0, [], (11, 12, 13, 21, 22), name="__init__")
        init.body = [ast.Pass()]
        cd = ast.ClassDef(name="K", bases=[], keywords=[], decorator_list=[], type_params=[], lineno=1, col_offset=0,
                          body=[ast.Expr(value=ast.Constant(value=mk_doc(style, documented).replace(":param", ":cvar"), kind=None)), init])
        ir = parse.class_(cd, merge_inner_function="__init__")
        m = model(init)
        got = list(ir["params"].keys())
        if has_kw and not doc_kw and "KF-C07-kwarg-dropped" in active:
            m = [x for x in m if x[0] != "kw"]
        if sorted(got) != sorted(x[0] for x in m):
            return False
        names_m = [x[0] for x in m]
        # class merge: the class docstring's entries come first (kw included where documented), then the rest in signature order
        known = [n for n in documented if n in names_m] + [n for n in names_m if n not in documented]
        if got != names_m and not ("KF-C07-doc-order" in active and got == known):
            return False
        for n, dflt, ann, kind in m:
            e = ir["params"][n]
            if dflt is not _EMPTY and not ("default" in e and e["default"] == dflt and type(e["default"]) is type(dflt)):
                return False
            if n in documented and e.get("doc") != PROSE[n]:
                return False
        return True


SEED_SCRIPT = r'''
import sys, ast
sys.path.insert(0, "/verif")
import lib.prelude
import harness.C07 as C07
from doctrans import parse, emit
out = []
for style in range(3):
    for cfg in C07.CONFIGS["quick"]:
        npos, nd, nkw, kwmask, has_kw, docmask, perm = cfg
        names = list(C07.POS[:npos]) + list(C07.KWO[:nkw]) + (["kw"] if has_kw else [])
        documented = C07._documented(names, docmask, perm)
        if style == 0 and "kw" in documented:
            continue
        fd = C07.mk_fn(npos, nd, nkw, kwmask, has_kw, 0, style, documented, (11, 12, 13, 21, 22))
        ir = parse.function(fd)
        out.append(repr(list(ir["params"].items())))
        out.append(ast.unparse(ast.fix_missing_locations(emit.function(ir, "f", None, word_wrap=False))))
from doctrans.defaults_utils import extract_default
for d in ("learning rate. Default: 0.01. With momentum it defaults to 0.1", "rate. Default value is 5. When tuned, defaults to 7"):
    out.append(repr(extract_default(d)))
    out.append(repr(extract_default(d, emit_default_doc=False)))
import hashlib
print(hashlib.sha256("\n".join(out).encode()).hexdigest())
'''


import itertools as _it

FIRST_NAMES = ["self", "cls", "selfcls", "Self", "cls_", "_self", "this", "klass"] + [
    "".join(t) for n in (1, 2, 3) for t in _it.product("selfcx", repeat=n)]


FIRST_CELLS = [(i, nd) for i in range(len(FIRST_NAMES)) for nd in range(4)]


def first_name_cell(c, active):
    c = realize(c)
    i, nd = FIRST_CELLS[c]
    return first_name_idx(i, nd, active)


def first_name_idx(c, nd, active):
    """the name of the FIRST positional parameter is a table entry (every string of <= 3 characters over 'selfcx', and the look-alikes
    of self / cls): only exactly `self` / `cls` is dropped; any other name is an ordinary parameter"""
    c, nd = realize((c, nd))
    with untraced():
        name = FIRST_NAMES[c]
        fd = mk_fn(2, min(nd, 2), 1, 1, 0, 0, 0, (), (11, 12, 13, 21, 22))
        fd.args.args = [ast.arg(arg=name, annotation=None)] + fd.args.args
        if nd == 3:
            if name in ("self", "cls"):
                return True  # a defaulted self / cls is not a definition anyone writes: outside the claim
            fd.args.defaults = [ast.Constant(value=10, kind=None)] + fd.args.defaults
        ir = parse.function(fd)
        return judge(ir, fd, [], 0, active) == ""


def seed_sweep(n):
    """process-level confirmation used on replay (and once per run as a cheap cross-check): identical digest under n hash seeds"""
    digs = set()
    for seed in list(range(n)) + ["random"]:
        from lib.chutil import fresh_env

        env = fresh_env(seed)
        p = subprocess.run([sys.executable, "-c", SEED_SCRIPT], capture_output=True, text=True, env=env)
        if p.returncode != 0:
            return {"status": "inconclusive", "detail": p.stderr[-400:]}
        digs.add(p.stdout.strip())
    if len(digs) == 1:
        return {"status": "discharged", "detail": "identical output digest under PYTHONHASHSEED 0..%d and random" % (n - 1), "queries": n + 1}
    return {"status": "violated", "detail": "%d different outputs across hash seeds" % len(digs), "cex": {"seeds": n}, "queries": n + 1}


def obligations(tier, seed):
    obs = []
    mp = 2 if tier == "quick" else 3
    for style in range(3):
        for first in range(3):
            if tier == "quick" and (style + first) % 3 == 2:
                continue
            if tier != "quick" and (style + first) % 2 == 1:
                continue  # thorough: 5 of the 9 (style, first argument) combinations on the large table, all 9 are in the quick table
            N = len(CONFIGS[tier])
            chunks = 1 if tier == "quick" else 12   # the cost of realising the index grows with the range: keep ranges <= ~500
            wit = CONFIGS[tier].index((2, 1, 1, 1, 0, 7, 0))
            for ch in range(chunks):
                lo, hi = N * ch // chunks, N * (ch + 1) // chunks
                obs.append(Ob(
                    name="config_s%d_f%d%s" % (style, first, "" if chunks == 1 else "_%d" % ch), params=[("c", "int")],
                    pre=["%d <= c < %d" % (lo, hi)],
                    body="H.config_idx(%d, %d, %r, c, {ACTIVE})" % (style, first, tier), witness=(wit if lo <= wit < hi else lo,),
                    kind="F",
                    bounds="style %s, first arg %s; configuration vectors %d..%d of %d (npos<=%d with every count of right-aligned defaults, <=%d "
                    "keyword-only with every default mask, **kw yes/no, every documented subset, first 2 documentation orders); values concrete"
                    % (("rest", "numpydoc", "google")[style], (None, "self", "cls")[first], lo, hi - 1, N, mp, 1 if tier == "quick" else 2),
                    timeout=240 if tier == "quick" else 900, path_timeout=100, funcs=FUNCS))
    for style in range(3):
        for nd, kwmask, documented in ((1, 1, ("a", "b", "c", "k", "m")), (2, 2, ("a",)), (3, 3, ()), (0, 0, ("a", "b"))):
            if tier == "quick" and (style + nd) % 2:
                continue
            obs.append(Ob(
                name="values_s%d_nd%d_%s" % (style, nd, "".join(documented) or "none"),
                params=[("d0", "int"), ("d1", "int"), ("d2", "int"), ("d3", "int")], pre=[],
                body="H.values(%d, %d, %d, %d, %r, {ACTIVE}, d0, d1, d2, d3)" % (style, (style + nd) % 3, nd, kwmask, documented),
                witness=(1, -2, 3, 4),
                bounds="def f(a: int, b: str, c, *, k: float, m) with %d positional defaults, keyword-only default mask %d, documented %r; "
                "the default values are unbounded symbolic ints" % (nd, kwmask, documented),
                timeout=150 if tier == "quick" else 600, path_timeout=100, funcs=FUNCS))
    for lo in range(0, len(FIRST_CELLS), 300):
        hi = min(lo + 300, len(FIRST_CELLS))
        obs.append(Ob(name="first_parameter_name_%d" % (lo // 300), params=[("c", "int")], pre=["%d <= c < %d" % (lo, hi)],
                      body="H.first_name_cell(c, {ACTIVE})", witness=(lo,), kind="F",
                      bounds="cells %d..%d of %d: first positional parameter named by each of %d strings (all of length <= 3 over 'selfcx' + "
                      "look-alikes of self/cls), followed by a, b and a keyword-only parameter; x 0..3 trailing defaults (3 = every positional has one)"
                      % (lo, hi - 1, len(FIRST_CELLS), len(FIRST_NAMES)), timeout=280, path_timeout=100, funcs=FUNCS))
    obs.append(ZOb(name="hashseed_sweep", run=lambda: seed_sweep(8 if tier == "quick" else 32),
                   replay=lambda cex: (seed_sweep(12)["status"] == "violated", "re-ran the sweep"),
                   bounds="'independent of any run-to-run variation': the whole quick configuration table x 3 styles converted in sub-processes "
                   "under PYTHONHASHSEED 0..%d and random; one digest" % (7 if tier == "quick" else 31)))
    for style in range(3):
        if tier == "quick" and style == 1:
            continue
        obs.append(Ob(name="class_init_config_s%d" % style, params=[("c", "int")], pre=["0 <= c < %d" % len(CONFIGS["quick"])],
                      body="H.cls_config_idx(%d, c, {ACTIVE})" % style, witness=(CONFIGS["quick"].index((2, 1, 1, 1, 0, 7, 0)),), kind="F",
                      bounds="class K merged with __init__: every configuration vector of the quick table (%d: <= 2 positional, <= 1 keyword-only, "
                      "**kw yes/no, every documented subset, 2 orders), docstring style %d" % (len(CONFIGS["quick"]), style),
                      timeout=280 if tier == "quick" else 900, path_timeout=100, funcs=FUNCS))
    obs.append(Ob(name="class_init_merge_kwargs", params=[("style", "int"), ("npos", "int"), ("docmask", "int"), ("dk", "int")],
                  pre=["1 <= style <= 2", "1 <= npos <= 3", "0 <= docmask < 2 ** npos", "0 <= dk <= 1"],
                  body="H.cls_merge(style, npos, 0, docmask, {ACTIVE}, has_kw=1, doc_kw=dk)", witness=(1, 2, 1, 1), kind="F",
                  bounds="class K merged with __init__(self, a, b, c, **kw): the class docstring (numpydoc / google, which carry a type for kw) "
                  "documents any subset of the parameters and optionally kw", timeout=200, path_timeout=100, funcs=FUNCS))
    obs.append(Ob(name="class_init_merge", params=[("style", "int"), ("npos", "int"), ("nd", "int"), ("docmask", "int")],
                  pre=["0 <= style <= 2", "0 <= npos <= %d" % mp, "0 <= nd <= npos", "0 <= docmask < 2 ** npos"],
                  body="H.cls_merge(style, npos, nd, docmask, {ACTIVE})", witness=(0, 2, 1, 1), kind="F",
                  bounds="class K with a docstring documenting a subset of __init__(self, a, b, c)'s parameters, merged with __init__",
                  timeout=200 if tier == "quick" else 900, path_timeout=100, funcs=FUNCS))
    return obs
