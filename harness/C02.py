"""C02 - config-class round trip: parse.class_(emit.class_(ir)) describes the same interface (AST level + via source text)."""
from harness.rt import *  # noqa: F401,F403
from harness import gridrun
from harness.gridrun import grid_ob  # noqa: F401  (obligation bodies call H.grid_ob)
from harness.rt import mk_ob
from lib.domain import SHAPES
from harness import C18  # noqa: F401  (word-wrap obligations reuse C18's width-symbolic body)

FUNCS = [
    "doctrans.emit.class_", "doctrans.emitter_utils.to_docstring", "doctrans.ast_utils.param2ast", "doctrans.ast_utils._generic_param2ast",
    "doctrans.ast_utils.set_value", "doctrans.ast_utils.get_value", "doctrans.parse.class_", "doctrans.parse.docstring",
    "doctrans.docstring_parsers.parse_docstring", "doctrans.docstring_parsers._set_name_and_type", "doctrans.docstring_parsers._infer_default",
    "doctrans.defaults_utils.extract_default", "doctrans.defaults_utils.set_default_doc",
]
ASSUMPTIONS = [
    "IR domain D (lib/domain.py:SHAPES); (S) obligations hand the ClassDef object from emit.class_ to parse.class_ directly; "
    "(F) obligations additionally pass through ast.unparse + ast.parse, where CrossHair realises the values (finite, solver-enumerated)",
    "permitted normalisation: a parameter without default acquires the zero value of its scalar type, or None (I3 class)",
    "word_wrap=False (wrapping is C18); emit_call, decorators, bases outside the claim",
]
QUICK = ["p1_ret_none", "p0_kwargs", "p1_ret_code_scalar", "p1_optint_d", "p1_optbool_f", "p1_optfloat_z", "p1_unionnum_d", "p2_d_then_optd", "p1_int", "p1_int_d", "p1_untyped_d", "p1_str_s", "p1_bool_b", "p1_float", "p1_optint_none", "p1_literal", "p1_list",
         "p2_d_then_plain", "p2_plain_then_d", "p1_ret", "p1_ret_d", "ret_only", "p1_kwargs", "p0", "p1_code", "p3_mixed"]


def obligations(tier, seed):
    obs = []
    shapes = QUICK if tier == "quick" else list(SHAPES)
    for sid in shapes:
        obs.append(mk_ob("rt", "rt", "class", sid, {"emit_default_doc": True}, tier, funcs=FUNCS))
    for sid in (["p1_int_d", "p1_str_s", "p1_ret"] if tier == "quick" else shapes):
        obs.append(mk_ob("rt", "rt", "class", sid, {"emit_default_doc": False}, tier, funcs=FUNCS))
    for sid in (["p1_int_d", "p1_str_s", "p1_untyped_d"] if tier == "quick" else shapes):
        obs.append(mk_ob("text", "rt", "class", sid, {"emit_default_doc": True}, tier, extra=", text=True", kind="F", fixed={"p": "the a b"}, str_alpha="STR_T", funcs=FUNCS))
    # word-wrap ON (the quantifier of C02 includes it): the class round trip on C18's pool of long texts with the width as solver variable
    from lib.ob import Ob

    for a, b in ((85, 105), (105, 125)) if tier == "quick" else ((40, 60), (60, 85), (85, 105), (105, 125), (125, 200)):
        obs.append(Ob(name="wrap_class_ir1_w%d" % a, params=[("W", "int")], pre=["%d <= W < %d" % (a, b)],
                      body="H.C18.wrap('class', 1, W, {ACTIVE})", witness=(a + 5,),
                      bounds="emit.class_(word_wrap=True) -> parse.class_ vs the unwrapped round trip, C18 pool IR 1, every width %d <= W < %d (symbolic)"
                      % (a, b), timeout=240 if tier == "quick" else 900, path_timeout=120, funcs=FUNCS))
    obs += gridrun.obligations('C02', tier, FUNCS)
    return obs
