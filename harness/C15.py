"""
C15 - dotted locations address exactly one node, the right one.

Real functions executed symbolically: ast_utils.{annotate_ancestry, find_in_ast, RewriteAtQuery};
every identifier of the module and every segment of the search path is a symbolic 1-char string,
so the solver picks which simple names coincide across scopes and whether the location exists.
"""
import ast

from lib import prelude  # noqa: F401
from lib.ob import Ob
from lib.skel import build_module, resolve, same_tree

from doctrans.ast_utils import RewriteAtQuery, annotate_ancestry, find_in_ast

FUNCS = [
    "doctrans.ast_utils.annotate_ancestry",
    "doctrans.ast_utils.find_in_ast",
    "doctrans.ast_utils.RewriteAtQuery",
]
ASSUMPTIONS = [
    "modules are built as ast objects exactly as ast.parse would (validated concretely against ast.parse(ast.unparse(m)) "
    "for each skeleton witness); identifiers are 1-character strings over a..h - only their equality pattern matters",
    "skeleton catalogue bounds the module shapes: <= 3 top-level statements, nesting <= 3, <= 2 args per function",
]

# skeleton catalogue: (skeleton, number of name slots)
SKELS = {
    "cls_ann": ([("cls", 0, [("ann", 1), ("ann", 2)])], 3),
    "cls_meth": ([("cls", 0, [("ann", 1), ("meth", 2, [3, 4], "self")])], 5),
    "fn": ([("fn", 0, [1, 2])], 3),
    "ann_cls": ([("ann", 0), ("cls", 1, [("ann", 2)])], 3),
    "cls_cls": ([("cls", 0, [("ann", 1)]), ("cls", 2, [("ann", 3)])], 4),
    "cls_fn": ([("cls", 0, [("ann", 1), ("meth", 2, [3], "self")]), ("fn", 4, [5])], 6),
    "fn_cls": ([("fn", 0, [1]), ("cls", 2, [("ann", 3), ("meth", 4, [5], "self")])], 6),
    "fn_fn": ([("fn", 0, [1]), ("fn", 2, [3])], 4),
    "imp_asg_fn": ([("imp",), ("asg", 0), ("fn", 1, [2])], 3),
    "nested": ([("cls", 0, [("cls", 1, [("ann", 2), ("meth", 3, [4], "self")]), ("ann", 5)])], 6),
    "meth_meth": ([("cls", 0, [("meth", 1, [2], "self"), ("meth", 3, [4], "cls")])], 5),
    "kwfn": ([("kwfn", 0, [1], [2])], 3),
    "doc_cls": ([("cls", 0, [("doc", 1), ("ann", 2)])], 3),
    "cls_meth_kw": ([("cls", 0, [("kwfn", 1, [2], [3])]), ("ann", 4)], 5),
    # a function BEFORE the target whose body holds a string constant and a local class (names may coincide with the target's)
    "cls_asg": ([("cls", 0, [("asg", 1), ("ann", 2)]), ("asg", 3)], 4),
    "fnbody_cls": ([("fnb", 0, [1], [("doc", 2), ("cls", 3, [("ann", 4)])]), ("cls", 5, [("ann", 6)])], 7),
}
ALPHA = "abcdefgh"


def names_ok(*codes):
    return all(0 <= c < 8 for c in codes)


def nm(*codes):
    """identifier for each symbolic int code: a 1-character symbolic string (equality pattern is all that matters)"""
    return tuple(chr(97 + c) for c in codes)


def _mod(skel_id, N):
    skel, _ = SKELS[skel_id]
    m = build_module(skel, N)
    annotate_ancestry(m)
    return m


def fn_in_scan(search, mod):
    """region predicate: find_in_ast walks past a FunctionDef that is not the function addressed by the
    last two segments (it consumes a path segment at every FunctionDef it meets)"""
    body = mod.body
    for depth, seg in enumerate(search):
        nxt = None
        for ch in body:
            if isinstance(ch, ast.FunctionDef):
                is_final_fn = ch.name == seg and depth >= len(search) - 2
                if not is_final_fn:
                    return True
                if ch.name == seg:
                    return False
            elif isinstance(ch, ast.ClassDef) and ch.name == seg:
                nxt = ch
                break
            elif isinstance(ch, ast.AnnAssign) and ch.target.id == seg:
                return False
        if nxt is None:
            return False
        body = nxt.body
    return False


def find(skel_id, L, N, S):
    mod = _mod(skel_id, N)
    search = list(S[:L])
    want = resolve(search, mod)
    got = find_in_ast(search, mod)
    if not want:
        return got is None
    return any(got is w for w in want)


def _replace(node, old, new):
    for f in node._fields:
        v = getattr(node, f, None)
        if isinstance(v, list):
            for i, x in enumerate(v):
                if x is old:
                    v[i] = new
                    return True
                if isinstance(x, ast.AST) and _replace(x, old, new):
                    return True
        elif isinstance(v, ast.AST):
            if v is old:
                setattr(node, f, new)
                return True
            if _replace(v, old, new):
                return True
    return False


def _marker(kind):
    if kind is ast.arg:
        return ast.arg(arg="zz", annotation=ast.Name("str", ast.Load()))
    if kind in (ast.AnnAssign, ast.Assign):
        return ast.AnnAssign(target=ast.Name("zz", ast.Store()), annotation=ast.Name("str", ast.Load()), value=None, simple=1)
    if kind is ast.ClassDef:
        return ast.ClassDef(name="ZZ", bases=[], keywords=[], body=[ast.Pass()], decorator_list=[], type_params=[])
    return ast.FunctionDef(
        name="zz", args=ast.arguments(posonlyargs=[], args=[], vararg=None, kwonlyargs=[], kw_defaults=[], kwarg=None, defaults=[]),
        body=[ast.Pass()], decorator_list=[], returns=None, type_comment=None, type_params=[],
    )


def rewrite(skel_id, L, N, S, kind_if_missing=0):
    """RewriteAtQuery must replace the resolved node once and nothing else; an unresolved location changes nothing"""
    skel, _ = SKELS[skel_id]
    mod = _mod(skel_id, N)
    ref = build_module(skel, N)
    search = list(S[:L])
    want = resolve(search, mod)
    want_ref = resolve(search, ref)
    kind = type(want[0]) if want else (ast.AnnAssign, ast.arg, ast.ClassDef, ast.FunctionDef)[kind_if_missing]
    repl = _marker(kind)
    rw = RewriteAtQuery(search=search, replacement_node=repl)
    out = rw.visit(mod)
    if want:
        if not rw.replaced:
            return False
        _replace(ref, want_ref[0], _marker(kind))
    else:
        if rw.replaced:
            return False
    return same_tree(out, ref)


def _scope_names(body):
    out = []
    for ch in body:
        if isinstance(ch, (ast.FunctionDef, ast.ClassDef)):
            out.append(ch.name)
        elif isinstance(ch, ast.AnnAssign):
            out.append(ch.target.id)
        elif isinstance(ch, ast.Assign):
            out.append(ch.targets[0].id)
    return out


def _distinct(xs):
    for i in range(len(xs)):
        for j in range(i + 1, len(xs)):
            if xs[i] == xs[j]:
                return False
    return True


def valid(sid, N):
    """Python-validity / in-claim predicate: argument names of one function are distinct (a SyntaxError otherwise)
    and one scope does not bind the same simple name twice (the property speaks of names repeated ACROSS scopes)"""
    mod = build_module(SKELS[sid][0], N)
    for n in ast.walk(mod):
        if isinstance(n, (ast.Module, ast.ClassDef)):
            if not _distinct(_scope_names(n.body)):
                return False
        if isinstance(n, ast.FunctionDef):
            if not _distinct([a.arg for a in n.args.args + n.args.kwonlyargs]):
                return False
    return True


def r_samename(sid, L, N, S):
    """two adjacent segments are equal (a member named like its container)"""
    return any(S[i] == S[i + 1] for i in range(L - 1))


def r_kwonly(sid, L, N, S):
    want = ctx(sid, L, N, S)[2]
    if not want or not isinstance(want[0], ast.arg):
        return False
    mod = _mod(sid, N)
    return any(isinstance(f, ast.FunctionDef) and any(a.arg == S[L - 1] for a in f.args.kwonlyargs) for f in ast.walk(mod))


def ctx(sid, L, N, S):
    mod = _mod(sid, N)
    search = list(S[:L])
    return mod, search, resolve(search, mod)


def r_missing(sid, L, N, S):
    return not ctx(sid, L, N, S)[2]


def r_fnskip(sid, L, N, S):
    mod, search, _ = ctx(sid, L, N, S)
    return fn_in_scan(search, mod)


def r_fnrepl(sid, L, N, S):
    want = ctx(sid, L, N, S)[2]
    return bool(want) and isinstance(want[0], ast.FunctionDef)


def _nested_members(mod):
    out = []

    def rec(body, depth):
        for ch in body:
            if isinstance(ch, ast.ClassDef):
                if depth >= 1:
                    out.append(ch)
                    for n in ast.walk(ch):
                        if n is not ch:
                            out.append(n)
                rec(ch.body, depth + 1)

    rec(mod.body, 0)
    return out


def r_nested(sid, L, N, S):
    """a class nested in a class: annotate_ancestry gives its members a location that omits the outer class"""
    mod, search, want = ctx(sid, L, N, S)
    nm = _nested_members(mod)
    if any(any(w is n for n in nm) for w in want):
        return True
    return any(getattr(n, "_location", None) == search for n in nm)


def r_const(sid, L, N, S):
    """a string-constant statement whose text equals the last segment is given a location like a named node"""
    mod, search, _ = ctx(sid, L, N, S)

    def outside_functions(node):
        for ch in ast.iter_child_nodes(node):
            if isinstance(ch, ast.FunctionDef):
                continue  # function bodies are never traversed by RewriteAtQuery: constants in there cannot be hit
            yield ch
            for x in outside_functions(ch):
                yield x

    return any(isinstance(n, ast.Expr) and isinstance(n.value, ast.Constant) and n.value.value == search[-1] for n in outside_functions(mod))


def _pick_witness(sid, k, L, body_fn, regions):
    """a concrete witness outside every known-finding region.  Preference goes to one on which the body currently holds; if the
    body fails on every candidate outside the regions the first such candidate is still returned, so that the pre-flight reports
    it as a concrete violation (an obligation must never disappear because the code under test is broken)."""
    import itertools

    Nc = tuple(range(k))
    fallback = None
    for Sc in itertools.product(list(Nc) + [7], repeat=L):
        N, S = nm(*Nc), nm(*Sc)
        try:
            if any(r(sid, L, N, S) for r in regions):
                continue
        except Exception:
            continue
        if fallback is None:
            fallback = Nc + tuple(Sc)
        try:
            if body_fn(sid, L, N, S):
                return Nc + tuple(Sc)
        except Exception:
            continue
    return fallback


def reannotate(sid, L, N, S):
    """history: annotate, replace the node at `search` by a marker, annotate AGAIN (as sync_properties does per pair), then the
    marker must be addressable at its own new location and the old location must be gone"""
    skel, _ = SKELS[sid]
    mod = _mod(sid, N)
    search = list(S[:L])
    want = resolve(search, mod)
    if not want or isinstance(want[0], ast.FunctionDef):
        return True
    kind = type(want[0])
    rw = RewriteAtQuery(search=search, replacement_node=_marker(kind))
    out = rw.visit(mod)
    if not rw.replaced:
        return False
    annotate_ancestry(out)
    new_name = "ZZ" if kind is ast.ClassDef else "zz"
    new_search = search[:-1] + [new_name]
    now = resolve(new_search, out)
    if len(now) != 1:
        return False
    rw2 = RewriteAtQuery(search=new_search, replacement_node=_marker(kind))
    rw2.visit(out)
    if not rw2.replaced:
        return False
    # the old location no longer exists (unless another node legitimately has it): replacing there must not touch the marker
    return True


DUP_SKELS = {
    # the same simple name bound twice in one scope: replace-at-location documents "only replaces first occurrence"
    "dup_cls_asg": ([("cls", 0, [("ann", 1)]), ("asg", 0), ("ann", 2)], 3),
    "dup_ann_ann": ([("ann", 0), ("imp",), ("ann", 0)], 1),
}
SKELS.update(DUP_SKELS)


def rewrite_first_only(sid, N):
    """two statements of one scope bind the same name: RewriteAtQuery replaces the first one only"""
    skel, _ = SKELS[sid]
    mod = _mod(sid, N)
    ref = build_module(skel, N)
    search = [N[0]]
    want_ref = resolve(search, ref)
    if len(want_ref) < 2:
        return False
    kind = type(want_ref[0])
    rw = RewriteAtQuery(search=search, replacement_node=_marker(kind))
    out = rw.visit(mod)
    _replace(ref, want_ref[0], _marker(kind))
    return rw.replaced and same_tree(out, ref)


def obligations(tier, seed):
    obs = []
    for sid, (skel, k) in DUP_SKELS.items():
        nn = ["n%d" % i for i in range(k)]
        N = "H.nm(" + ", ".join(nn) + ")"
        pre = ["H.names_ok(%s)" % ", ".join(nn)]
        if k > 1:
            pre.append("len(set((%s))) == %d" % (", ".join(nn), k))
        obs.append(Ob(name="first_only_%s" % sid, params=[(x, "int") for x in nn], pre=pre,
                      body="H.rewrite_first_only(%r, %s)" % (sid, N), witness=tuple(range(k)),
                      bounds="skeleton %s = %r: the addressed name is bound twice in one scope; only the first occurrence may be replaced" % (sid, skel),
                      timeout=100, funcs=FUNCS))
    for sid in ("cls_ann", "cls_meth", "ann_cls", "cls_fn"):
        skel, k = SKELS[sid]
        for L in (1, 2, 3):
            nn = ["n%d" % i for i in range(k)]
            ss = ["s%d" % i for i in range(L)]
            N = "H.nm(" + ", ".join(nn) + ")"
            S = "H.nm(" + ", ".join(ss) + ")"
            a = "%r, %d, %s, %s" % (sid, L, N, S)
            w = _pick_witness(sid, k, L, lambda s_, L_, N_, S_: bool(ctx(s_, L_, N_, S_)[2]) and reannotate(s_, L_, N_, S_),
                              (r_fnrepl, r_nested, r_const, r_missing))
            if w is None:
                continue
            obs.append(Ob(name="reannotate_%s_L%d" % (sid, L), params=[(x, "int") for x in nn + ss],
                          pre=["H.names_ok(%s)" % ", ".join(nn + ss), "H.valid(%r, %s)" % (sid, N), "not H.r_missing(%s)" % a,
                               "all(x not in ('z', 'Z') for x in %s)" % N],
                          body="H.reannotate(%s)" % a, witness=w,
                          bounds="skeleton %s; replace at a symbolic location, annotate_ancestry again, then address the inserted node" % sid,
                          kf=[("KF-C15-fnreplace", "H.r_fnrepl(%s)" % a), ("KF-C15-nested", "H.r_nested(%s)" % a),
                              ("KF-C15-const", "H.r_const(%s)" % a)],
                          timeout=120 if tier == "quick" else 600, path_timeout=60, funcs=FUNCS))
    quick = ["cls_ann", "cls_meth", "fn", "ann_cls", "cls_cls", "fn_cls", "cls_fn", "meth_meth", "nested", "doc_cls", "kwfn", "fnbody_cls", "cls_asg", "imp_asg_fn"]
    ids = quick if tier == "quick" else [k for k in SKELS if not k.startswith(("dup_", "c11_", "c14_"))]
    for sid in ids:
        skel, k = SKELS[sid]
        for L in (1, 2, 3):
            if tier == "quick" and L == 3 and sid in ("cls_ann", "fn", "ann_cls", "cls_cls", "doc_cls", "kwfn"):
                continue
            nn = ["n%d" % i for i in range(k)]
            ss = ["s%d" % i for i in range(L)]
            params = [(x, "int") for x in nn + ss]
            N = "H.nm(" + ", ".join(nn) + ")"
            S = "H.nm(" + ", ".join(ss) + ")"
            a = "%r, %d, %s, %s" % (sid, L, N, S)
            common = dict(
                params=params,
                pre=["H.names_ok(%s)" % ", ".join(nn + ss), "H.valid(%r, %s)" % (sid, N)],
                timeout=120 if tier == "quick" else 600,
                path_timeout=60,
            )
            w = _pick_witness(sid, k, L, find, (r_missing, r_fnskip, r_nested, r_samename, r_kwonly))
            if w is not None:
                obs.append(
                    Ob(
                        name="find_%s_L%d" % (sid, L),
                        body="H.find(%s)" % a,
                        witness=w,
                        bounds="skeleton %s = %r; all %d identifiers and the %d search segments symbolic (int-coded 1-char names a..h)"
                        % (sid, skel, k, L),
                        kf=[
                            ("KF-C15-fnskip", "H.r_fnskip(%s)" % a),
                            ("KF-C15-missing", "H.r_missing(%s)" % a),
                            ("KF-C15-samename", "H.r_samename(%s)" % a),
                            ("KF-C15-kwonly", "H.r_kwonly(%s)" % a),
                        ],
                        **common,
                    )
                )
            w = _pick_witness(sid, k, L, rewrite, (r_fnrepl, r_nested, r_const))
            if w is not None:
                obs.append(
                    Ob(
                        name="rewrite_%s_L%d" % (sid, L),
                        body="H.rewrite(%s)" % a,
                        witness=w,
                        bounds="skeleton %s; RewriteAtQuery with a marker node of the resolved node's type; identifiers and segments symbolic"
                        % (sid,),
                        kf=[
                            ("KF-C15-fnreplace", "H.r_fnrepl(%s)" % a),
                            ("KF-C15-nested", "H.r_nested(%s)" % a),
                            ("KF-C15-const", "H.r_const(%s)" % a),
                        ],
                        **common,
                    )
                )
    return obs
