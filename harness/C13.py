"""
C13 - conversions do not interfere through shared inputs.

frame obligations (S): each emitter / parser leaves its argument structurally unchanged (content symbolic);
sequence obligations (F): a solver-chosen sequence (length <= 4, repetition allowed) of emitters applied to ONE shared IR gives, at
every step, the artefact the same call gives on a fresh deep copy; same for one shared AST parsed / re-emitted repeatedly.
"""
import ast
from collections import OrderedDict
from copy import deepcopy

from harness.rt import *  # noqa: F401,F403
from harness.rt import mk_ob
from lib.chutil import realize, untraced
from lib.domain import SHAPES, emit_kind, mk_ir
from lib.ob import Ob
from lib.skel import same_tree

from doctrans import emit, parse

FUNCS = ["doctrans.emit.class_", "doctrans.emit.function", "doctrans.emit.argparse_function", "doctrans.emit.docstring",
         "doctrans.parse.class_", "doctrans.parse.function", "doctrans.parse.argparse_ast", "doctrans.emitter_utils.RewriteName",
         "doctrans.ast_utils.param2ast", "doctrans.ast_utils.param2argparse_param", "doctrans.defaults_utils.set_default_doc"]
ASSUMPTIONS = [
    "an emitter is applied to the shared object exactly as conformance.ground_truth does (no copy), the reference run gets a deep copy",
    "sequence space: 4 emitters, length 1..4 with repetition (340 sequences) per IR of a pool with/without return entry and with/without "
    "a carried body; explored path-wise by the solver (finite, exhaustive)",
]

EMITTERS = ("class", "function", "argparse", "docstring")


def _emit(ir, which, wrap=True):
    if which == 4:
        return emit.class_(ir, class_name="K", emit_call=True)
    if which == 0:
        return emit.class_(ir, class_name="K")
    if which == 1:
        return emit.function(ir, function_name="f", function_type="static")
    if which == 2:
        return emit.argparse_function(ir, function_name="set_cli_args")
    return emit.docstring(ir, word_wrap=wrap)


def _eq(a, b):
    if isinstance(a, str) or isinstance(b, str):
        return a == b
    return same_tree(a, b)


BODY_SRC = '''
def f(a, b=5):
    """
    Summary line

    :param a: the a
    :type a: ```int```

    :param b: the b
    :type b: ```int```

    :returns: the sum
    :rtype: ```int```
    """
    c = a + b
    print(c, a)
    return c
'''


def pool_ir(i, p=None, d=None):
    """IR pool: 0..2, 4, 5 from the shape catalogue (4: an untyped parameter, 5: a parameter without prose), 3 = parsed from a function with a body"""
    if i == 0:
        return mk_ir("p2_d_then_plain", p=p or "the b", d=1 if d is None else d)
    if i == 1:
        return mk_ir("p1_ret", p=p or "the a")
    if i == 2:
        return mk_ir("p3_mixed", p=p or "the a", d=1 if d is None else d)
    if i == 6:
        # no carried body, a return entry whose code default mentions the parameters inside a larger expression
        ir = mk_ir("p2_both_d", p=p or "the a", d=1 if d is None else d)
        ir["returns"] = OrderedDict([("return_type", {"typ": "Tuple[int, str]", "doc": "the result", "default": "```(a * 2, b)```"})])
        return ir
    if i == 4:
        return mk_ir("p1_untyped_d", p=p or "the a", d=1 if d is None else d)
    if i == 5:
        return mk_ir("p2_noprose", p=p or "the b", d=1 if d is None else d)
    ir = parse.function(ast.parse(BODY_SRC).body[0])
    return ir


def frame(which, i, p=None, d=None):
    """emitter `which` leaves the IR it is given unchanged"""
    ir = pool_ir(i, p, d)
    snap = deepcopy(ir)
    _emit(ir, which, wrap=False)  # textwrap's regexes on symbolic text stall the engine; wrapping is C18's subject
    return _ir_same(ir, snap)


def _ir_same(a, b):
    if set(a.keys()) != set(b.keys()):
        return False
    for k in a:
        if k == "_internal":
            if not same_tree(a[k].get("body"), b[k].get("body")):
                return False
        elif k in ("params", "returns"):
            if (a[k] is None) != (b[k] is None):
                return False
            if a[k] is not None:
                if list(a[k].keys()) != list(b[k].keys()):
                    return False
                for n in a[k]:
                    if a[k][n] != b[k][n]:
                        return False
        elif a[k] != b[k]:
            return False
    return True


import itertools as _it

SEQ_TABLE = [(n,) + s + (0,) * (4 - n) for n in (1, 2, 3, 4) for s in _it.product(range(4), repeat=n)]


def sequence_idx(i, c):
    c = realize(c)
    return sequence(i, *SEQ_TABLE[c])


def sequence(i, n, s1, s2, s3, s4):
    with untraced():
        shared = pool_ir(i)
        pristine = deepcopy(shared)
        for w in (s1, s2, s3, s4)[:n]:
            got = _emit(shared, w)
            want = _emit(deepcopy(pristine), w)
            if not _eq(got, want):
                return False
        return True


FRESH = r'''
import sys, json, ast
sys.path.insert(0, "/verif")
import lib.prelude
import harness.C13 as H
i, w = int(sys.argv[1]), int(sys.argv[2])
a = H._emit(H.pool_ir(i), w)
print(json.dumps(a if isinstance(a, str) else ast.dump(a)))
'''


def prepare(tier):
    """artefact of every (pool IR, emitter) pair computed ALONE in a fresh interpreter: a reference that no state left behind by an
    earlier path or step (caches, mutated shared nodes) can have touched"""
    import json as _json
    import subprocess
    import sys

    from lib.chutil import fresh_env

    env = fresh_env()
    ref = {}
    for i in (1, 6):
        for w in range(5):
            if i == 1 and w == 4:
                continue  # emit_call=True on a return entry without default raises KeyError (KF-C16-emit-call-no-return-default)
            p = subprocess.run([sys.executable, "-c", FRESH, str(i), str(w)], capture_output=True, text=True, env=env)
            ref["%d_%d" % (i, w)] = _json.loads(p.stdout.strip().splitlines()[-1])
    return ref


_PREP = []


def prepared():
    if not _PREP:
        import json as _json
        import os

        f = os.environ.get("VERIF_PREPARED")
        _PREP.append(_json.load(open(f)) if f and os.path.exists(f) else prepare("quick"))
    return _PREP[0]


def sequence_fresh(i, n, s1, s2, s3):
    """as `sequence`, with emit_call=True among the emitters, judged against fresh-interpreter references"""
    i, n, s1, s2, s3 = realize((i, n, s1, s2, s3))
    with untraced():
        shared = pool_ir(i)
        for w in (s1, s2, s3)[:n]:
            if i == 1 and w == 4:
                return True
            got = _emit(shared, w)
            got = got if isinstance(got, str) else ast.dump(got)
            if got != prepared()["%d_%d" % (i, w)]:
                return False
        return True


FRESH_SEQ = r'''
import sys
sys.path.insert(0, "/verif")
import lib.prelude
import harness.C13 as H
a = [int(x) for x in sys.argv[1:]]
print("RESULT", H.sequence_fresh(*a))
'''


def _fallback_box(x):
    return {"found": x}


def find_self_contained(i):
    """search the sequence table, one FRESH interpreter per sequence, for a sequence that fails on its own"""
    import itertools
    import subprocess
    import sys
    from concurrent.futures import ThreadPoolExecutor

    from lib.chutil import fresh_env

    env = fresh_env()
    cands = [(n,) + s + (0,) * (3 - n) for n in (1, 2, 3) for s in itertools.product(range(5), repeat=n)]

    def run(c):
        p = subprocess.run([sys.executable, "-c", FRESH_SEQ, str(i)] + [str(x) for x in c], capture_output=True, text=True, env=env)
        return c, "RESULT True" in p.stdout

    with ThreadPoolExecutor(max_workers=12) as ex:
        for c, ok in ex.map(run, cands):
            if not ok:
                return list(c)
    return None


def parse_twice(k):
    """parsing does not alter the tree it was given in a way that changes a later parse / emit"""
    k = realize(k)
    with untraced():
        if k == 0:
            node = ast.parse(BODY_SRC).body[0]
            snap = ast.dump(node)
            a = parse.function(node)
            b = parse.function(node)
            ok = ast.dump(node) == snap
        elif k == 1:
            node = emit_kind(mk_ir("p3_mixed", p="the a", d=1), "class")
            node = ast.parse(ast.unparse(ast.fix_missing_locations(node))).body[0]
            snap = ast.dump(node)
            a = parse.class_(node)
            b = parse.class_(node)
            ok = ast.dump(node) == snap
        else:
            node = emit_kind(mk_ir("p3_mixed", p="the a", d=1), "argparse")
            node = ast.parse(ast.unparse(ast.fix_missing_locations(node))).body[0]
            snap = ast.dump(node)
            a = parse.argparse_ast(node)
            b = parse.argparse_ast(node)
            ok = ast.dump(node) == snap
        a.pop("_internal", None)
        b.pop("_internal", None)
        return ok and a == b


def parse_twice_grid(quick, kind, chunk, i):
    """generated shape i of the chunk, emitted as `kind` and read back from its text: parsing the SAME node twice leaves the node
    unchanged and gives the same description both times (emitted functions have no body beyond the docstring)"""
    from lib.domain import parse_kind

    i = realize(i)
    with untraced():
        rows = grid_rows("quick" if quick else "thorough")
        rid = rows[chunk][i]
        try:
            node = emit_kind(mk_ir(rid), kind, {})
            node = ast.parse(ast.unparse(ast.fix_missing_locations(node))).body[0]
        except Exception:
            return True  # the shape cannot be rendered as this kind (round-trip family's known findings)
        snap = ast.dump(node)
        try:
            a = parse_kind(node, kind, {})
        except Exception:
            return ast.dump(node) == snap
        if ast.dump(node) != snap:
            return False
        try:
            b = parse_kind(node, kind, {})
        except Exception:
            return False
        a.pop("_internal", None)
        b.pop("_internal", None)
        return ast.dump(node) == snap and a == b


def grid_rows(tier):
    from lib import grid

    ids = grid.select(tier)
    size = 120 if tier == "quick" else 300
    return [ids[i:i + size] for i in range(0, len(ids), size)]


def frame_grid(quick, w1, w2, chunk, i):
    """generated shape (lib/grid.py) number i of the chunk: emitter w1 leaves the description unchanged - also when it raises -
    and emitter w2 applied to the same object afterwards gives what it gives on a fresh copy"""
    i = realize(i)
    with untraced():
        rid = grid_rows("quick" if quick else "thorough")[chunk][i]
        ir = mk_ir(rid)
        snap = deepcopy(ir)
        try:
            _emit(ir, w1)
        except Exception:
            return _ir_same(ir, snap)
        if not _ir_same(ir, snap):
            return False
        try:
            want = _emit(deepcopy(snap), w2)
        except Exception:
            return True  # w2 cannot render this description at all (known findings of the round-trip family); nothing to compare
        try:
            got = _emit(ir, w2)
        except Exception:
            return False
        return _eq(got, want) and _ir_same(ir, snap)


def obligations(tier, seed):
    obs = []
    for w1 in range(5):
        for c, ids in enumerate(grid_rows(tier)):
            w2 = (w1 + 1 + c) % 4
            obs.append(Ob(
                name="frame_grid_%s_%d" % (("class", "function", "argparse", "docstring", "classcall")[w1], c), params=[("i", "int")],
                pre=["0 <= i < %d" % len(ids)], body="H.frame_grid(%r, %d, %d, %d, i)" % (tier == "quick", w1, w2, c), witness=(0,), kind="F",
                bounds="generated shapes %s..%s (%d rows of lib/grid.py, table-indexed, content concrete); emitter %d then emitter %d on the "
                "same object" % (ids[0], ids[-1], len(ids), w1, w2), timeout=300 if tier == "quick" else 1200, path_timeout=100, funcs=FUNCS))
    for kind in ("function", "method", "class", "argparse"):
        for c, ids in enumerate(grid_rows(tier)):
            if tier == "quick" and (c + len(kind)) % 2:
                continue
            obs.append(Ob(name="parse_twice_grid_%s_%d" % (kind, c), params=[("i", "int")], pre=["0 <= i < %d" % len(ids)],
                          body="H.parse_twice_grid(%r, %r, %d, i)" % (tier == "quick", kind, c), witness=(0,), kind="F",
                          bounds="generated shapes %s..%s (%d rows): emitted as %s, re-read from text, the same node parsed twice" % (ids[0], ids[-1], len(ids), kind),
                          timeout=300 if tier == "quick" else 1200, path_timeout=100, funcs=FUNCS))
    for w in range(4):
        for i in range(6):
            params, pre = [("p", "str"), ("d", "int")], ["1 <= len(p) <= 2", "all(c in %r for c in p)" % PROSE_A,
                                                         "p[0] != ' ' and p[-1] != ' '", "-2 <= d <= 2"]
            obs.append(Ob(
                name="frame_%s_ir%d" % (EMITTERS[w], i), params=params, pre=pre, body="H.frame(%d, %d, p, d)" % (w, i),
                witness=("a", 1), bounds="emitter %s on pool IR %d; prose hole len<=2 over %r and int default in [-2,2] symbolic"
                % (EMITTERS[w], i, PROSE_A), timeout=150 if tier == "quick" else 600, path_timeout=100, funcs=FUNCS))
    for i in range(6):
        nseq = len([t for t in SEQ_TABLE if t[0] <= (3 if tier == "quick" else 4)])
        obs.append(Ob(
            name="sequence_ir%d" % i, params=[("c", "int")], pre=["0 <= c < %d" % nseq],
            body="H.sequence_idx(%d, c)" % i, witness=(SEQ_TABLE.index((1, 3, 0, 0, 0)),), kind="F",
            bounds="pool IR %d; every sequence of emitters {class,function,argparse,docstring} of length 1..%d with repetition (%d sequences, table-indexed)"
            % (i, 3 if tier == "quick" else 4, nseq), timeout=200 if tier == "quick" else 900, path_timeout=100, funcs=FUNCS))
    for i in (1, 6):
        obs.append(Ob(name="sequence_fresh_ir%d" % i, params=[("n", "int"), ("s1", "int"), ("s2", "int"), ("s3", "int")],
                      pre=["1 <= n <= 3", "all(0 <= x < 5 for x in (s1, s2, s3))", "(n >= 2 or s2 == 0) and (n >= 3 or s3 == 0)"],
                      body="H.sequence_fresh(%d, n, s1, s2, s3)" % i, witness=(1, 3, 0, 0), kind="F",
                      bounds="pool IR %d%s; every sequence of length 1..3 over {class, function, argparse, docstring, class with emit_call}; every "
                      "artefact compared with the same call made alone in a fresh interpreter" % (i, " (return default ```(a * 2, b)```)" if i == 6 else ""),
                      timeout=200 if tier == "quick" else 900, path_timeout=100, funcs=FUNCS, fallback="H.find_self_contained(%d)" % i))
    obs.append(Ob(name="parse_twice", params=[("k", "int")], pre=["0 <= k <= 2"], body="H.parse_twice(k)", witness=(0,), kind="F",
                  bounds="one shared FunctionDef / ClassDef / argparse FunctionDef parsed twice", timeout=120, funcs=FUNCS))
    return obs


def class_before_other(n, s1, s2, s3, s4):
    """region: the class emitter runs on the shared IR and some emitter runs after it"""
    seq = (s1, s2, s3, s4)[:n]
    for j, w in enumerate(seq):
        if w == 0 and j < n - 1:
            return True
    return False
