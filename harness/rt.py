"""
Shared bodies of the round-trip family (C01-C05, C08): real emit.* / parse.* executed symbolically on an IR whose
shape is concrete and whose content (prose, int / str / bool defaults) is symbolic.
"""
from lib import prelude  # noqa: F401
from lib.domain import (
    DOC_KINDS, KINDS, SHAPES, ZERO, _is_none, emit_kind, holes_of, iface_diffs, mk_ir, parse_kind, roundtrip, via_text,
    P, D, S, B,
)
from lib.ob import Ob

PROSE_A = "ab .,:()`0-"
STR_A = "ab '\"."

# ----------------------------------------------------------------------------------------------------------------
# documented normalisations (DESIGN §3.2 I3) - permitted differences, taken from the property statements only
def permitted(where, code, kind, want, chain=()):
    kinds = (kind,) + tuple(chain)
    e = want["params"].get(where) if where not in ("returns", "params", "summary") else (
        (want.get("returns") or {}).get("return_type") if where == "returns" else None)
    if "class" in kinds and code in ("default-invented-zero", "default-invented-none"):
        # a parameter without a default acquires the zero value of its (scalar) type, or None
        return code == "default-invented-zero" or (e is not None and e.get("typ") not in ZERO)
    if "argparse" in kinds:
        if code == "default-invented-zero" or (code == "default-invented-empty-str" and "argparse" in kinds[1:]):
            return True  # required option without default acquires the zero value ('' for every type argparse reads as str)
        if code == "default-lost" and e is not None and "default" in e and _is_none(e.get("default")):
            return True  # Optional <-> not required: a None default is carried by optionality
        if code == "typ-changed" and e is not None and "default" in e and _is_none(e["default"]):
            return True  # a None default is expressed as optionality: typ becomes Optional[typ]
        if code == "typ-changed" and e is not None and "default" not in e and "class" in kinds and e.get("typ") not in ZERO:
            return True  # ... also the None a class hop gave a non-scalar parameter without default (two documented normalisations)
        if code == "ret-lost" and "default" not in ((want.get("returns") or {}).get("return_type") or {}):
            return True  # only a return entry that carries a default is representable
    return False


# ----------------------------------------------------------------------------------------------------------------
# known-finding tolerances: (id) -> predicate(kind, where, code, want_ir, opts).  Only applied while the finding is
# listed as open in /verif/known_findings.json (the runner passes the active ids in).
def _entry(want, where):
    if where == "returns":
        return (want.get("returns") or {}).get("return_type") or {}
    return want["params"].get(where, {})


def _has_default_before(want, where):
    seen = False
    for n, e in want["params"].items():
        if n == where:
            return seen
        if "default" in e:
            seen = True  # (a None default counts: g2_13_14)
    return seen  # the return entry comes after all params


TOL = {
    # emit.function gives every parameter without a default the default None (def f(a: int = None))
    # (in a chain the invented None then shows up as Optional[...] / a 'Defaults to None' sentence in later kinds)
    "KF-RT-fn-none-default": lambda k, w, c, ir, o: k in ("function", "method") and "default" not in _entry(ir, w)
    and c in ("default-invented-none", "typ-changed", "doc"),
    # numpydoc/google: after a parameter with a default, later entries (and the return entry) acquire a zero default
    "KF-RT-np-force-default": lambda k, w, c, ir, o: k in ("numpydoc", "google")
    and c in ("default-invented-zero", "default-invented-none") and _has_default_before(ir, w),
    # a parameter that has a default but no prose has nowhere to carry the default sentence
    "KF-RT-noprose-default": lambda k, w, c, ir, o: c == "default-lost" and not _entry(ir, w).get("doc") and k != "argparse" and k != "class",
    # ... and an entry without prose is not listed in the docstring, so merged representations list it last
    "KF-RT-noprose-order": lambda k, w, c, ir, o: c == "order" and k in ("class", "function", "method")
    and any(not e.get("doc") for e in ir["params"].values()),
    # numpydoc/google cannot render an untyped parameter (no 'name : type' header is written)
    "KF-RT-untyped-npgoogle": lambda k, w, c, ir, o: k in ("numpydoc", "google")
    and any(e.get("typ") is None for e in ir["params"].values()),
    # function docstring carries 'Defaults to "x"': the parsed str default overrides the non-scalar annotation with 'str'
    "KF-RT-fn-typ-from-default": lambda k, w, c, ir, o: k in ("function", "method") and c == "typ-changed"
    and "default" in _entry(ir, w) and not _is_none(_entry(ir, w)["default"]) and _entry(ir, w).get("typ") not in ZERO
    and o.get("emit_default_doc", True),
    # google: a docstring with only a Returns section is read as prose
    "KF-RT-google-retonly": lambda k, w, c, ir, o: k == "google" and not ir["params"] and w == "returns",
    # class emitter: an explicit None default of a scalar-typed parameter is replaced by the type's zero value
    "KF-RT-class-none-to-zero": lambda k, w, c, ir, o: k == "class" and c == "default-value" and "default" in _entry(ir, w)
    and _is_none(_entry(ir, w)["default"]) and _entry(ir, w).get("typ") in ZERO,
    # google: a parameter line that ends with ':' (prose ending in a colon) is taken for a section header
    "KF-RT-google-colon-end": lambda k, w, c, ir, o: k == "google" and c in ("names", "summary")
    and any(i >= 1 and (e.get("doc") or "").endswith(":") for i, e in enumerate(ir["params"].values())),
    # argparse: a back-tick quoted return default is emitted as a string literal
    "KF-RT-argparse-ret-codequoted": lambda k, w, c, ir, o: k == "argparse" and w == "returns" and c == "default-value",
}


def _str_special(ir):
    for e in ir["params"].values():
        d = e.get("default")
        if isinstance(d, str) and len(d) > 0 and (d[0] in QUOTES or d[-1] in QUOTES or BSL in d):
            return True
    return False


QUOTES = "'" + '"'
BSL = chr(92)
TOL["KF-RT-str-special"] = lambda k, w, c, ir, o: c in ("default-value", "default-lost", "default-type") and _str_special(ir)
# exceptions tolerated while a finding is open: id -> predicate(kind, ir, exception type name)
def _code_default_plain_typ(ir):
    for e in list(ir["params"].values()) + [((ir.get("returns") or {}).get("return_type") or {})]:
        d = e.get("default")
        if isinstance(d, str) and len(d) > 6 and d.startswith("```") and d.endswith("```") and d != "```(None)```" and "[" not in (e.get("typ") or ""):
            return True
    return False


TOL["KF-RT-code-default-drops-type"] = lambda k, w, c, ir, o: c == "typ-lost" and (k in ("function", "method") or (k == "class" and w != "returns")) \
    and isinstance(_entry(ir, w).get("default"), str) and _entry(ir, w)["default"].startswith("```") and "[" not in (_entry(ir, w).get("typ") or "")
# inline_types=False: types go to the docstring, but a parameter without prose has no docstring line - its type is lost
TOL["KF-RT-noprose-type-not-inline"] = lambda k, w, c, ir, o: k in ("function", "method") and c == "typ-lost" and o.get("inline_types") is False \
    and w != "returns" and not _entry(ir, w).get("doc")
TOL_EXC = {
    "KF-RT-code-default-literal-eval-crash": lambda k, ir, exc: exc == "ValueError" and _code_default_plain_typ(ir)
    and k in ("function", "method", "rest", "numpydoc", "google"),
    "KF-RT-str-special": lambda k, ir, exc: exc in ("SyntaxError", "ValueError") and _str_special(ir),
}


def _acquires_empty(ir, kinds, upto, ret):
    """some str-typed entry (the return entry if `ret`, else a parameter) holds the default '' when the hop kinds[upto] runs: it had
    it from the start, or it had no default and an earlier hop gave it the zero value (class / argparse: the documented
    normalisation; numpydoc / google: KF-RT-np-force-default, only after an entry that has a default)"""
    es = [((ir.get("returns") or {}).get("return_type") or {})] if ret else list(ir["params"].values())
    names = list(ir["params"].values())
    for e in es:
        if e.get("typ") not in ("str", "Optional[str]"):
            continue
        if e.get("default", None) == "" and isinstance(e.get("default"), str):
            return True
        if "default" not in e:
            before = names if ret else names[:names.index(e)]
            if any(k in ("class", "argparse") for k in kinds[:upto]):
                return True
            if any(k in ("numpydoc", "google") for k in kinds[:upto]) and any("default" in b for b in before):
                return True
    return False


# chain-aware exception tolerances: id -> predicate(kinds, ir, exception type name)
TOL_EXC_CHAIN = {
    # emit.argparse_function does ast.parse(default).body[0] on a '' return default: IndexError
    "KF-C09-empty-return-default": lambda kinds, ir, exc: exc == "IndexError" and any(
        k == "argparse" and _acquires_empty(ir, kinds, i, True) for i, k in enumerate(kinds)),
}


def tolerated_exc(kinds, ir, exc, active):
    for kid in active:
        f = TOL_EXC.get(kid)
        if f is not None and any(f(k, ir, exc) for k in kinds):
            return True
        g = TOL_EXC_CHAIN.get(kid)
        if g is not None and g(tuple(kinds), ir, exc):
            return True
    return False


def _typename(v):
    return type(v).__name__


# the exact wrong outcome of a known finding, where the parsed-back entry is at hand: id -> predicate(code, want entry, got entry).
# A tolerance of TOL applies only if its pin (when it has one) accepts what actually came back - a different wrong answer in the
# same region is a different violation.
TOL_PIN = {
    # `= None` invented: the type may only become Optional[<same type>], the prose may only gain the sentence announcing None
    "KF-RT-fn-none-default": lambda c, w, g: (
        c == "default-invented-none"
        or (c == "typ-changed" and g.get("typ") == "Optional[%s]" % w.get("typ"))
        or (c == "doc" and (g.get("doc") or "").rstrip(".").endswith("Defaults to None")
            and (g.get("doc") or "").startswith((w.get("doc") or "").rstrip(".,")))),
    # the type is replaced by the type NAME of the default value, nothing else
    "KF-RT-fn-typ-from-default": lambda c, w, g: g.get("typ") == _typename(w.get("default")),
    # None -> exactly the zero value of the declared scalar type
    "KF-RT-class-none-to-zero": lambda c, w, g: "default" in g and type(g["default"]) is type(ZERO[w["typ"]]) and g["default"] == ZERO[w["typ"]],
    # the code default comes back as the same text wrapped in quotes
    "KF-RT-argparse-ret-codequoted": lambda c, w, g: isinstance(g.get("default"), str) and str(w.get("default")).strip("`") in g["default"],
}


def tolerated(kind, where, code, want, opts, active, got=None):
    for kid in active:
        f = TOL.get(kid)
        if f is not None and f(kind, where, code, want, opts):
            pin = TOL_PIN.get(kid)
            if pin is None or got is None or where in ("params", "summary"):
                return True
            g = ((got.get("returns") or {}).get("return_type") or {}) if where == "returns" else got["params"].get(where, {})
            if pin(code, _entry(want, where), g):
                return True
    return False


def residual(got, want, kind, opts, active, chain=()):
    """the differences that are neither a documented normalisation nor the exact outcome of an open known finding"""
    out = []
    defaults_on = opts.get("emit_default_doc", True) and all(True for _ in chain)
    for where, code in iface_diffs(got, want, kind, defaults_on=defaults_on, ws=opts.get("ws", False)):
        if code == "order":
            # KF-RT-noprose-order tolerates exactly ONE order: parameters with prose first, then the prose-less ones, each group in
            # source order.  Anything else is a violation.
            names = list(want["params"].keys())
            expected = [n for n in names if want["params"][n].get("doc")] + [n for n in names if not want["params"][n].get("doc")]
            if "KF-RT-noprose-order" in active and list(got["params"].keys()) == expected and any(
                    k in ("class", "function", "method") for k in (kind,) + tuple(chain)):
                continue
            out.append((where, code))
            continue
        if permitted(where, code, kind, want, chain):
            continue
        if any(tolerated(k, where, code, want, opts, active, got=got) for k in (kind,) + tuple(chain)):
            continue
        out.append((where, code))
    return out


def judge(got, want, kind, opts, active, chain=()):
    return not residual(got, want, kind, opts, active, chain)


def first_diff(got, want, kind, opts, chain=()):
    """for replay messages"""
    for where, code in iface_diffs(got, want, kind, defaults_on=opts.get("emit_default_doc", True)):
        if not permitted(where, code, kind, want, chain):
            return "%s: %s" % (where, code)
    return ""


# ----------------------------------------------------------------------------------------------------------------
def rt(kind, shape_id, opts, active, p=None, d=None, s=None, b=None, text=False):
    """one hop: parse_kind(emit_kind(ir)) describes the same interface"""
    ir = mk_ir(shape_id, p, d, s, b)
    try:
        got = roundtrip(ir, kind, opts, text=text)
    except Exception as e:
        if tolerated_exc((kind,), ir, type(e).__name__, active):
            return True
        raise
    if kind in ("function", "method"):
        want_type = "static" if kind == "function" else opts.get("ftype", "self")
        if got.get("type") != want_type:
            return False  # plain function / instance method / class method must be preserved
    return judge(got, ir, kind, opts, active)


def pair(kind, shape_a, shape_b, opts, active, p=None, d=None, s=None, b=None):
    """two round trips in ONE process: the second must not be affected by the first (defaults that are == but differ in type,
    e.g. False then 0.0, share hash and equality - the classic cache-key collision)"""
    from lib.chutil import realize, untraced

    # the subject is state that survives between two calls (caches keyed by ==): the real functools / dict machinery must run, so
    # the holes are realised (the solver enumerates them) and both conversions execute untraced
    p, d, s, b = realize((p, d, s, b))
    with untraced():
        return rt(kind, shape_a, opts, active, p, d, s, b) and rt(kind, shape_b, opts, active, p, d, s, b)


def chain(kinds, shape_id, opts, active, p=None, d=None, s=None, b=None):
    """C05: convert through every kind of `kinds` in turn, judge the last parse against the original"""
    ir = mk_ir(shape_id, p, d, s, b)
    cur = ir
    try:
        for k in kinds:
            cur = roundtrip(cur, k, opts)
            cur.pop("_internal", None)
    except Exception as e:
        if tolerated_exc(tuple(kinds), ir, type(e).__name__, active):
            return True
        raise
    return judge(cur, ir, kinds[-1], opts, active, chain=kinds[:-1])


def _art_eq(a, b, kind):
    if kind in DOC_KINDS:
        return a == b
    from lib.skel import same_tree

    return same_tree(a, b)


def stabilise(kind, shape_id, opts, active, p=None, d=None, s=None, b=None):
    """C08: second and third emission identical"""
    ir = mk_ir(shape_id, p, d, s, b)
    x1 = parse_kind(emit_kind(ir, kind, opts), kind, opts)
    x1.pop("_internal", None)
    e2 = emit_kind(x1, kind, opts)
    x2 = parse_kind(e2, kind, opts)
    x2.pop("_internal", None)
    e3 = emit_kind(x2, kind, opts)
    return _art_eq(e2, e3, kind)


# ----------------------------------------------------------------------------------------------------------------
STR_T = "a'" + '"' + chr(92) + " "  # text-level str defaults: quotes, backslash, space


def hole_spec(shape_id, tier, pl=None, fixed=None, str_alpha=None, dr=None):
    """(params, pre, witness, call-args) for the holes of a shape"""
    hs = holes_of(shape_id)
    pl = pl or (2 if tier == "quick" else 3)
    fixed = fixed or {}
    params, pre, wit, args = [], [], [], []
    for k, v in fixed.items():
        args.append("%s=%r" % (k, v))
    hs = [h for h in hs if {P: "p", D: "d", S: "s", B: "b"}[h] not in fixed]
    if P in hs:
        params.append(("p", "str"))
        pre += ["1 <= len(p) <= %d" % pl, "all(c in %r for c in p)" % PROSE_A, "p[0] != ' ' and p[-1] != ' '",
                "not p.startswith('Op') and not p.startswith('(O')"]
        wit.append("a")
        args.append("p=p")
    if D in hs:
        params.append(("d", "int"))
        dr = dr or (2 if tier == "quick" else 4)
        pre.append("-%d <= d <= %d" % (dr, dr))
        wit.append(-1)
        args.append("d=d")
    if S in hs:
        params.append(("s", "str"))
        if str_alpha:
            pre += ["1 <= len(s) <= 2", "all(c in H.%s for c in s)" % str_alpha, "s[0] != ' ' and s[-1] != ' '"]
        else:
            pre += ["1 <= len(s) <= 2", "all(c in 'ab ' for c in s)", "s[0] != ' ' and s[-1] != ' '"]
        wit.append("aa" if str_alpha else "ab")
        args.append("s=s")
    if B in hs:
        params.append(("b", "bool"))
        wit.append(True)
        args.append("b=b")
    return params, pre, tuple(wit), ", ".join(args)


def _untyped(shape_id):
    return any(t is None for _, t, _, _ in SHAPES[shape_id][1])


def mk_ob(prefix, fn, first, shape_id, opts, tier, timeout=None, extra="", pl=None, kind="S", funcs=(), fixed=None,
          str_alpha=None, dr=None):
    params, pre, wit, args = hole_spec(shape_id, tier, pl, fixed, str_alpha, dr)
    kinds = (first,) if isinstance(first, str) else tuple(first)
    skip = []
    if _untyped(shape_id) and any(k in ("numpydoc", "google") for k in kinds):
        skip.append("KF-RT-untyped-npgoogle")  # name line is not even written: nothing meaningful left to compare
    tag = "_".join("%s%s" % (k[:2], str(v)[:1]) for k, v in sorted(opts.items()))
    body = "H.%s(%r, %r, %r, {ACTIVE}%s%s)" % (fn, first, shape_id, opts, (", " + args) if args else "", extra)
    return Ob(
        name="%s_%s_%s%s" % (prefix, first if isinstance(first, str) else "-".join(first), shape_id, ("_" + tag) if tag else ""),
        params=params or [("z", "bool")],
        pre=pre,
        body=body,
        witness=wit or (True,),
        bounds="shape %s = %r; kind(s) %r; options %r; holes: prose p over %r len<=%d, int default in [-%d,%d] "
        "(solver-enumerated where it reaches str.format), str default over %s len<=2, bool; fixed %r" % (
            shape_id, SHAPES[shape_id], first, opts, PROSE_A, pl or (2 if tier == "quick" else 3),
            dr or (2 if tier == "quick" else 4), dr or (2 if tier == "quick" else 4), str_alpha or "'ab '", fixed),
        kind=kind,
        timeout=timeout or (330 if tier == "quick" else 900),
        path_timeout=100,
        funcs=list(funcs),
        skip_kf=skip,
    )
