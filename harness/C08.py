"""C08 - conversion stabilises after one pass: emit(parse(emit(ir))) and the emission after one more parse are identical."""
from harness.rt import *  # noqa: F401,F403
from harness import gridrun
from harness.gridrun import grid_ob  # noqa: F401  (obligation bodies call H.grid_ob)
from harness.rt import mk_ob
from harness import C01, C02, C03, C04

FUNCS = sorted(set(C01.FUNCS + C02.FUNCS + C03.FUNCS + C04.FUNCS))
ASSUMPTIONS = [
    "second and third emission compared: string equality for the three docstring styles; structural equality of the emitted ASTs for "
    "class / function / method / argparse (ast.unparse is a function of the tree, so equal trees give byte-identical text)",
    "the parsed IR is re-emitted under the same kind, name and options; `_internal` (carried bodies) is dropped - bodies are C16's subject",
]
SH = ["p1_code2", "p1_optint_d", "p1_optbool_f", "p1_int", "p1_int_d", "p1_str_s", "p1_bool_b", "p1_optint_none", "p2_d_then_plain", "p2_plain_then_d", "p1_ret", "p1_ret_d",
      "ret_only", "p1_kwargs", "p0", "p1_literal", "p1_code", "p1_untyped_d", "p3_mixed"]
ARGP = [s for s in SH if s in C04.EXPR]


from collections import OrderedDict as _OD

# a return entry whose prose is long enough to wrap at every width of the range, and which carries no default
LONG_RET = {"name": None, "type": "static", "doc": "Short summary",
            "params": _OD([("a", {"typ": "int", "doc": "the a", "default": 5})]),
            "returns": _OD([("return_type", {"typ": "Tuple[int, int]", "doc": "the pair of counters that the caller is expected to add up and to "
                                                                            "report back to the coordinator once every shard has been processed - "
                                                                            "never None"})])}


def stab_wrap(kind, i, W, sep_tab):
    """word_wrap ON with the C18 pool of long texts and a symbolic width: the second and third emission are identical"""
    from harness import C18
    from lib.domain import emit_kind, parse_kind
    from harness.rt import _art_eq

    ir = LONG_RET if i == 9 else C18.POOL[i]
    undo = C18._bind(W)
    try:
        o = {"word_wrap": True, "emit_default_doc": True, "sep_tab": bool(sep_tab), "indent_level": 1}
        x1 = parse_kind(emit_kind(ir, kind, o), kind, o)
        x1.pop("_internal", None)
        e2 = emit_kind(x1, kind, o)
        x2 = parse_kind(e2, kind, o)
        x2.pop("_internal", None)
        e3 = emit_kind(x2, kind, o)
    finally:
        undo()
    return _art_eq(e2, e3, kind)


def cell_kf(kind, sid):
    """cells whose second/third emissions are known to differ because of a listed finding (whole cell excluded while it is open)"""
    from lib.domain import SHAPES, ABSENT
    summary, params, ret = SHAPES[sid]
    out = []
    if kind in ("numpydoc", "google"):
        seen = False
        entries = [(t, d) for _, t, _, d in params] + ([(ret[0], ret[2])] if ret else [])
        for t, d in entries:
            nodef = isinstance(d, str) and d == ABSENT
            if seen and nodef and t in ("str", None):
                out.append("KF-RT-np-force-default")  # acquires '' -> dangling 'Defaults to ' -> stripped next pass
            if not nodef:
                seen = True
        if kind == "google" and not params and ret:
            out.append("KF-RT-google-retonly")
    if kind in ("function", "method") and sid == "p1_code2":
        out.append("KF-RT-code-default-literal-eval-crash")
    return out


def obligations(tier, seed):
    obs = []
    t = 200 if tier == "quick" else 900
    for kind in ("rest", "numpydoc", "google", "class", "function", "method", "argparse"):
        shapes = ARGP if kind == "argparse" else SH
        for i, sid in enumerate(shapes):
            for dd in (True, False):
                if tier != "quick" and not dd and i % 3:
                    continue  # thorough: default text off for every third shape
                if tier == "quick" and ((i + (0 if dd else 1)) % 3 != 0 or (kind in ("method",) and i % 2)) and not (
                        sid in ("p1_int_d", "p1_str_s", "p1_code2") and dd):
                    continue
                opts = {"emit_default_doc": dd}
                if kind in ("function", "method"):
                    opts.update({"inline_types": i % 2 == 0, "kwonly": i % 3 == 0, "indent_level": i % 3})
                ob = mk_ob("stab", "stabilise", kind, sid, opts, tier, funcs=FUNCS, timeout=t,
                           pl=1 if tier == "quick" else 2, dr=1 if tier == "quick" else 2)
                ob.skip_kf = list(ob.skip_kf) + cell_kf(kind, sid)
                obs.append(ob)
    from lib.ob import Ob

    for kind in ("class", "function", "rest"):
        for i in (1, 3):
            for a, b in ((60, 85), (85, 125)):
                if tier == "quick" and kind == "rest" and a == 60:
                    continue
                obs.append(Ob(name="stab_wrap_%s_ir%d_w%d" % (kind, i, a), params=[("W", "int")], pre=["%d <= W < %d" % (a, b)],
                              body="H.stab_wrap(%r, %d, W, 1)" % (kind, i), witness=(a + 10,),
                              bounds="word_wrap on, emitter %s, C18 pool IR %d (long summary / prose / type strings), every width %d <= W < %d "
                              "(symbolic): second and third emission identical" % (kind, i, a, b), timeout=240 if tier == "quick" else 900,
                              path_timeout=120, funcs=FUNCS))
    for kind in ("function", "method", "class", "rest"):
        for a, b in ((60, 85), (85, 125)):
            if tier == "quick" and (kind in ("class", "rest")) == (a == 60):
                continue
            obs.append(Ob(name="stab_wrap_%s_longret_w%d" % (kind, a), params=[("W", "int")], pre=["%d <= W < %d" % (a, b)],
                          body="H.stab_wrap(%r, 9, W, 1)" % kind, witness=(a + 10,),
                          bounds="word_wrap on, emitter %s, a return entry with long prose and no default, every width %d <= W < %d (symbolic): second "
                          "and third emission identical" % (kind, a, b), timeout=240 if tier == "quick" else 900, path_timeout=120, funcs=FUNCS))
    obs += gridrun.obligations('C08', tier, FUNCS)
    return obs
