"""
C18 - word-wrapping and line-length configuration are semantically transparent.

The WIDTH is the symbolic variable: `fill` / `line_length` are rebound in every doctrans module to textwrap.fill with a symbolic
width W; the text is concrete (summaries, prose and type strings shorter than, about equal to and much longer than typical widths).
textwrap then branches only on `len(chunk) <= W` comparisons, so the solver partitions ALL widths in the stated range into the finitely
many layout classes.  The read path of the setting (pure_utils' two module-level statements) is executed separately with a stub
environ holding a symbolic decimal string.
"""
import ast
import textwrap
from collections import OrderedDict
from functools import partial

from harness.rt import TOL, tolerated  # noqa: F401
from lib import prelude  # noqa: F401
from lib.domain import DOC_KINDS, emit_kind, iface_diffs, parse_kind
from lib.ob import Ob

import doctrans.ast_utils
import doctrans.docstring_utils
import doctrans.emit
import doctrans.emitter_utils
import doctrans.pure_utils
from doctrans.ast_utils import NoneStr

FUNCS = ["doctrans.pure_utils.fill", "doctrans.pure_utils.indent_all_but_first", "doctrans.emitter_utils.to_docstring",
         "doctrans.docstring_utils.emit_param_str", "doctrans.emit.docstring", "doctrans.emit.class_", "doctrans.emit.function",
         "doctrans.emit.argparse_function", "doctrans.docstring_parsers._set_name_and_type", "doctrans.defaults_utils.extract_default",
         "textwrap.fill (real, traced)"]
ASSUMPTIONS = [
    "width binding: `fill`/`line_length` rebound in pure_utils, emit, emitter_utils, docstring_utils, ast_utils to the symbolic W "
    "(the modules copy the value at import, so the environment cannot be varied in-process); the env read path is checked separately",
    "text is concrete (pool of 3 IRs); prose compared modulo line breaks and runs of whitespace (I4)",
    "parse(wrapped) is judged against parse(unwrapped) of the same emitter call",
]

LONG = ("Acquire from the official tensorflow_datasets model zoo, or the ophthalmology focussed ml-prepare library and "
        "return the splits for training and for testing")
POOL = [
    {"name": None, "type": "static", "doc": "Short summary",
     "params": OrderedDict([("a", {"typ": "int", "doc": "the a", "default": 5}), ("b", {"typ": "str", "doc": "the b"})]), "returns": None},
    {"name": None, "type": "static", "doc": LONG,
     "params": OrderedDict([
         ("dataset_name", {"typ": "str", "doc": "name of dataset, one of the names known to the loader registry of the package", "default": "mnist"}),
         ("as_numpy", {"typ": "Optional[bool]", "doc": "Convert to numpy ndarrays", "default": NoneStr}),
         ("k", {"typ": "Union[Tuple[tf.data.Dataset, tf.data.Dataset], Tuple[np.ndarray, np.ndarray]]", "doc": "the k value"})]),
     "returns": OrderedDict([("return_type", {"typ": "Union[Tuple[tf.data.Dataset, tf.data.Dataset], Tuple[np.ndarray, np.ndarray]]",
                                              "doc": "Train and tests dataset splits."})])},
    {"name": None, "type": "static", "doc": "Loads the zoo - resolved lazily - and returns it",
     "params": OrderedDict([("mode", {"typ": "str", "doc": "pre- and post-processing mode - either fast or exact - used when the archive "
                                                           "is opened -- see the notes", "default": "fast"}),
                            ("n", {"typ": "int", "doc": "range 1 - 10 of retries", "default": 3})]), "returns": None},
    {"name": None, "type": "static", "doc": "Summary with exactly forty characters..",
     "params": OrderedDict([("rate", {"typ": "float", "doc": "learning rate used by the optimiser in every step of training", "default": 0.5})]),
     "returns": None},
]
# a str default of several words (a wrap position can fall inside the default value) - used by the wrap_*_ir4 obligations only
MULTIWORD = {"name": None, "type": "static", "doc": "Short summary",
             "params": OrderedDict([("banner", {"typ": "str", "doc": "text shown on start-up by the command line front end", "default": "lorem ipsum dolor sit"}),
                                    ("n", {"typ": "int", "doc": "the n", "default": 3})]), "returns": None}
MODS = (doctrans.pure_utils, doctrans.emit, doctrans.emitter_utils, doctrans.docstring_utils, doctrans.ast_utils)


def _bind(W):
    saved = []
    f = partial(textwrap.fill, width=W)
    for m in MODS:
        for name, val in (("fill", f), ("line_length", W)):
            if name in m.__dict__:
                saved.append((m, name, m.__dict__[name]))
                setattr(m, name, val)

    def undo():
        for m, name, old in saved:
            setattr(m, name, old)

    return undo


def _nows(x):
    return None if x is None else "".join(x.split())


def c18_tolerated(where, code, g, w, active):
    """known findings, each restricted to differences that consist ONLY of inserted line breaks / indentation"""
    if code == "typ-changed" and "KF-C18-wrapped-type" in active and _nows(g) == _nows(w):
        return True  # a wrapped type string is not re-joined
    if code in ("doc", "summary") and "KF-C18-hyphen-break" in active and g is not None and w is not None:
        # textwrap breaks after a hyphen INSIDE a word; re-joining the lines with a space gives 'ml- prepare'.  Exactly that outcome is
        # tolerated: the text with an optional single space after intra-word hyphens - nothing else (in particular not a lost space).
        import re

        pat = ""
        ww = _ws(w)
        for i, ch in enumerate(ww):
            pat += re.escape(ch)
            if ch == "-" and 0 < i < len(ww) - 1 and ww[i - 1] != " " and ww[i + 1] != " ":
                pat += " ?"
        return re.fullmatch(pat, _ws(g)) is not None
    return False


def _ws(x):
    return None if x is None else " ".join(x.split())


def ir_diffs(got, want):
    """(where, code) differences between two parsed IRs, prose compared modulo whitespace (I4)"""
    out = []
    gk, wk = list(got["params"].keys()), list(want["params"].keys())
    if gk != wk:
        out.append(("params", "names"))
    entries = [(n, got["params"].get(n), want["params"][n]) for n in wk if n in got["params"]]
    gr, wr = (got.get("returns") or {}).get("return_type"), (want.get("returns") or {}).get("return_type")
    if (gr is None) != (wr is None):
        out.append(("returns", "ret-lost" if gr is None else "ret-invented"))
    elif wr is not None:
        entries.append(("returns", gr, wr))
    for n, g, w in entries:
        if g.get("typ") != w.get("typ"):
            out.append((n, "typ-changed", g.get("typ"), w.get("typ")))
        if _ws(g.get("doc")) != _ws(w.get("doc")):
            out.append((n, "doc", g.get("doc"), w.get("doc")))
        if ("default" in g) != ("default" in w):
            out.append((n, "default-lost" if "default" in w else "default-invented-other"))
        elif "default" in w and not (type(g["default"]) is type(w["default"]) and g["default"] == w["default"]):
            out.append((n, "default-value"))
    if _ws(got.get("doc") or "") != _ws(want.get("doc") or ""):
        out.append(("summary", "summary", got.get("doc"), want.get("doc")))
    return out


def wrap(kind, i, W, active, opts=None):
    """every emitter succeeds at width W, and parse(wrapped) == parse(unwrapped) modulo whitespace"""
    opts = dict(opts or {})
    ir = MULTIWORD if i == 4 else POOL[i]
    undo = _bind(W)
    try:
        a_w = emit_kind(ir, kind, dict(opts, word_wrap=True))
        a_u = emit_kind(ir, kind, dict(opts, word_wrap=False))
        got = parse_kind(a_w, kind, opts)
        want = parse_kind(a_u, kind, opts)
    finally:
        undo()
    for d in ir_diffs(got, want):
        if not (len(d) == 4 and c18_tolerated(d[0], d[1], d[2], d[3], active)):
            return False
    return True


def env_read(s):
    """the two module-level statements that define line_length / fill, re-executed with DOCTRANS_LINE_LENGTH = s"""
    src = open(doctrans.pure_utils.__file__).read()
    tree = ast.parse(src)
    stmts = [n for n in tree.body if isinstance(n, ast.Assign) and isinstance(n.targets[0], ast.Name) and n.targets[0].id in ("line_length", "fill")]
    assert len(stmts) == 2
    ns = {"environ": {"DOCTRANS_LINE_LENGTH": s}, "partial": partial, "_fill": textwrap.fill}
    exec(compile(ast.Module(body=stmts, type_ignores=[]), "<pure_utils excerpt>", "exec"), ns)
    out = ns["fill"]("some words that are long enough to need a wrap at small widths for sure")
    # (words longer than the width are broken by textwrap; that is the wrap obligations' business, not the read path's)
    return "".join(out.split()) == "".join("some words that are long enough to need a wrap at small widths for sure".split()) \
        and isinstance(ns["line_length"], int) and ns["line_length"] == int(s)


def obligations(tier, seed):
    obs = []
    kinds = ("rest", "numpydoc", "google", "class", "function", "argparse")
    lo, hi = (20, 200) if tier == "quick" else (1, 400)
    for kind in kinds:
        for i in range(len(POOL)):
            if tier == "quick" and kind in ("numpydoc", "google") and i == 2:
                continue
            if i == 1:
                cuts = [20, 32, 45, 62, 85, 120, 201] if tier == "quick" else [10, 20, 28, 36, 45, 55, 68, 85, 105, 130, 170, 250, 401]
            else:
                cuts = [lo, hi + 1] if tier == "quick" else [10, 60, 401]
            for a, b in zip(cuts, cuts[1:]):
                obs.append(Ob(
                    name="wrap_%s_ir%d_w%d" % (kind, i, a), params=[("W", "int")], pre=["%d <= W < %d" % (a, b)],
                    body="H.wrap(%r, %d, W, {ACTIVE})" % (kind, i), witness=(max(a + (b - a) // 2, 20) if b > 20 else a,),
                    bounds="every width %d <= W < %d (symbolic int); emitter %s on pool IR %d (concrete text); word_wrap on vs off" % (a, b, kind, i),
                    timeout=420 if tier == "quick" else 1200, path_timeout=120, funcs=FUNCS,
                    kf=[("KF-C18-long-word-break", "W < 20")] if a < 20 < b else [],
                    skip_kf=(["KF-C18-numpydoc-wrap"] if kind == "numpydoc" else []) + (["KF-C18-long-word-break"] if b <= 20 else [])))
    for kind in ("rest", "function") if tier == "quick" else ("rest", "google", "function", "class", "argparse"):
        for a, b in ((20, 201),) if tier == "quick" else ((20, 60), (60, 120), (120, 401)):
            obs.append(Ob(
                name="wrap_%s_ir4_w%d" % (kind, a), params=[("W", "int")], pre=["%d <= W < %d" % (a, b)],
                body="H.wrap(%r, 4, W, {ACTIVE})" % kind, witness=(a + (b - a) // 2,),
                bounds="every width %d <= W < %d (symbolic int); emitter %s on a description whose str default has several words (a wrap "
                "position can fall inside the default value); word_wrap on vs off, defaults compared exactly" % (a, b, kind),
                timeout=420 if tier == "quick" else 1200, path_timeout=120, funcs=FUNCS))
    # the parser's own flag differs from the emitter's: default text written, then stripped from the prose on the way back
    for kind in ("rest", "google") if tier == "quick" else ("rest", "google", "function", "class"):
        for i in (1,) if tier == "quick" else range(len(POOL)):
            cuts = [45, 62] if (tier == "quick" and i == 1) else ([20, 201] if tier == "quick" else [20, 45, 62, 85, 120, 201])
            if tier == "quick" and i == 2 and kind == "google":
                continue
            for a, b in zip(cuts, cuts[1:]):
                obs.append(Ob(
                    name="wrap_strip_%s_ir%d_w%d" % (kind, i, a), params=[("W", "int")], pre=["%d <= W < %d" % (a, b)],
                    body="H.wrap(%r, %d, W, {ACTIVE}, {'parse_default_doc': False})" % (kind, i), witness=(a + (b - a) // 2,),
                    bounds="every width %d <= W < %d (symbolic int); emitter %s on pool IR %d with default text, parsed back with the default "
                    "sentence stripped from the prose (emit_default_doc=False on the parser); word_wrap on vs off" % (a, b, kind, i),
                    timeout=420 if tier == "quick" else 1200, path_timeout=120, funcs=FUNCS))
    obs.append(Ob(name="env_read", params=[("s", "str")], pre=["1 <= len(s) <= 3", "all(c in '0123456789' for c in s)", "s[0] != '0'", "int(s) >= 1"],
                  body="H.env_read(s)", witness=("60",), kind="F",
                  bounds="DOCTRANS_LINE_LENGTH = any decimal string of 1..3 digits without leading zero (positive); pure_utils' own two statements "
                  "extracted from its current AST", timeout=200, funcs=["doctrans.pure_utils (module-level line_length / fill statements)"]))
    return obs
