"""
C14 - sync_properties changes exactly the addressed property.

(S) unit: sync_property(input_eval=False, ...) on hand-built input / output modules; every identifier of the output module and every
    segment of the output location is symbolic (int-coded 1-char names), the input location is picked from the input module's
    addressable nodes; wrap template on/off.  Oracle: the addressed node now carries the input's name and (wrapped) annotation,
    every other node is structurally unchanged; an address that does not resolve raises and changes nothing.
(F) file level: sync_properties on the in-memory FS over a pool of module pairs x {eval on/off, wrap on/off, 1..3 pairs}: input file
    never opened for writing and byte-identical, output parses, everything but the addressed nodes unchanged.
"""
import ast

from harness import C15
from harness.syncenv import MODS
from lib.chutil import realize, untraced
from lib.fsstub import FS, install
from lib.ob import Ob
from lib.skel import build_module, resolve, same_tree

import doctrans.sync_properties
from doctrans.ast_utils import annotate_ancestry
from doctrans.sync_properties import sync_property

FUNCS = ["doctrans.sync_properties.sync_properties", "doctrans.sync_properties.sync_property", "doctrans.ast_utils.find_in_ast",
         "doctrans.ast_utils.annotate_ancestry", "doctrans.ast_utils.RewriteAtQuery", "doctrans.ast_utils.emit_arg", "doctrans.emit.file"]
ASSUMPTIONS = [
    "--input-eval executes the input module (eval(compile(...))): only pool modules; arbitrary user code is outside the claim",
    "(S): output module skeletons of the catalogue below, identifiers 1-char names a..h (int-coded, only the equality pattern matters)",
    "file system = lib/fsstub.py; real black",
]

IN_SRC = "class A(object):\n    x: int = 5\n    y: Optional[str] = None\n\nz: float = 0.5\n"
IN_PATHS = (["A", "x"], ["A", "y"], ["z"])
OUT_SKELS = {
    "cls_fn": ([("imp",), ("cls", 0, [("ann", 1), ("meth", 2, [3, 4], "self")]), ("ann", 5)], 6),
    "kwfn": ([("kwfn", 0, [1], [2]), ("cls", 3, [("ann", 4)])], 5),
    "fn_ann": ([("ann", 0), ("fn", 1, [2, 3])], 4),
}
C15.SKELS.update({"c14_" + k: v for k, v in OUT_SKELS.items()})
WRAP = "Optional[Union[{output_param}, str]]"


def unit(sid, L, ip, wrap, N, S):
    skel, _ = C15.SKELS[sid]
    in_mod = ast.parse(IN_SRC)
    out_mod = build_module(skel, N)
    annotate_ancestry(out_mod)
    ref = build_module(skel, N)
    search = list(S[:L])
    want = resolve(search, out_mod)
    want_ref = resolve(search, ref)
    in_node = resolve(list(IN_PATHS[ip]), ast.parse(IN_SRC))[0]
    ann = ast.unparse(in_node.annotation)
    if wrap:
        ann = WRAP.format(output_param=ann)
    try:
        out = sync_property(False, ".".join(IN_PATHS[ip]), in_mod, "in.py", ".".join(search), WRAP if wrap else None, out_mod)
    except AssertionError:
        # reported as an error: legitimate iff the address does not resolve, and then nothing may have changed
        return not want and same_tree(out_mod, ref)
    if not want:
        return False  # silently "succeeded" on an address that does not exist
    tgt = want_ref[0]
    if isinstance(tgt, ast.arg):
        new = ast.arg(arg=in_node.target.id, annotation=ast.parse(ann).body[0].value)
    elif isinstance(tgt, (ast.AnnAssign, ast.Assign)):
        new = ast.AnnAssign(target=ast.Name(in_node.target.id, ast.Store()), annotation=ast.parse(ann).body[0].value,
                            value=in_node.value, simple=1)
    else:
        return False  # a class / function is not a property
    C15._replace(ref, tgt, new)
    return same_tree(out, ref)


def r_not_property(sid, L, N, S):
    """outside the claim: the location addresses a class or a function, not a parameter / attribute"""
    want = C15.ctx(sid, L, N, S)[2]
    return bool(want) and isinstance(want[0], (ast.ClassDef, ast.FunctionDef))


# ------------------------------------------------------------------------------------------------ file level
OUT_SRC = [
    "import os\n\n\nclass C(object):\n    a: str = 'x'\n\n    def m(self, a: str, b=1):\n        return a\n\n\nY = 2\n",
    "def f(a: str = 'x', *, b: int = 1):\n    return a\n\n\ndef g(a, b):\n    return b\n",
    "a: int = 1\n\n\nclass K(object):\n    a: int = 2\n    b: int = 3\n",
]
OUT_PATHS = [(["C.a", "C.m.a", "C.m.b"]), (["f.a", "f.b", "g.a"]), (["a", "K.a", "K.b"])]
EVAL_SRC = "import math\n\nx = ('np', 'tf')\ny = (0, 1, 2, False, True)\nz = ('a', 'a', 1.0, 1)\n"
EVAL_VALUES = {"x": ("np", "tf"), "y": (0, 1, 2, False, True), "z": ("a", "a", 1.0, 1)}
FTABLE = [(o, npairs, first, wrap, ev, same) for o in range(3) for npairs in (1, 2, 3) for first in range(3) for wrap in (0, 1) for ev in (0, 1)
          for same in (0, 1) if not (same and npairs == 1)]  # same = 1: every pair reads the SAME input address


def _arg_with_default(src, pth):
    segs = pth.split(".")
    tree = ast.parse(src)
    hits = resolve(segs, tree)
    if not hits or not isinstance(hits[0], ast.arg):
        return False
    fn = resolve(segs[:-1], tree)[0]
    # (the implementation indexes the right-aligned defaults list with the argument's own position, so any positional
    #  default of the function can be hit)
    return len(fn.args.defaults) > 0


def file_level(c, active):
    c = realize(c)
    with untraced():
        o, npairs, first, wrap, ev, same = FTABLE[c]
        outs = [OUT_PATHS[o][(first + i) % 3] for i in range(npairs)]
        if ev:
            ins = [("x", "y", "z")[(first + (0 if same else i)) % 3] for i in range(npairs)]
            in_src = EVAL_SRC
        else:
            ins = [".".join(IN_PATHS[(first + (0 if same else i)) % 3]) for i in range(npairs)]
            in_src = IN_SRC
        fs = FS({"/p/in.py": in_src, "/p/out.py": OUT_SRC[o]})
        undo = install(fs, *MODS)
        try:
            doctrans.sync_properties.sync_properties(bool(ev), "/p/in.py", ins, "/p/out.py", outs, WRAP if wrap else None)
        except AttributeError:
            # eval mode on a function argument that has a default: the default is overwritten with the *string* NoneStr
            # and unparse fails; nothing has been written yet (single write at the end)
            if ev and "KF-C14-eval-arg-default-crash" in active and any(_arg_with_default(OUT_SRC[o], p_) for p_ in outs):
                return fs.files["/p/in.py"] == in_src and fs.files["/p/out.py"] == OUT_SRC[o] and not fs.opened_w
            raise
        finally:
            undo()
        if fs.files["/p/in.py"] != in_src or "/p/in.py" in fs.opened_w:
            return False
        after = ast.parse(fs.files["/p/out.py"])  # must parse
        before = ast.parse(OUT_SRC[o])
        # mask the addressed nodes: compare everything else
        def mask(tree, paths, names):
            for pth, nm in zip(paths, names):
                segs = pth.split(".")
                hits = resolve(segs, tree) or resolve(segs[:-1] + [nm], tree)
                for h in hits[:1]:
                    if isinstance(h, ast.arg):
                        h.arg, h.annotation = "<masked>", None
                    else:
                        h.target, h.annotation, h.value = ast.Name("<masked>", ast.Store()), ast.Name("m", ast.Load()), None
            return ast.dump(tree)
        if ev:
            # "a Literal of the evaluated values": every value, in order, with its own type (False is not 0, 1.0 is not 1)
            for pth, src_name in zip(outs, ins):
                hit = resolve(pth.split("."), after)
                if not hit:
                    return False
                ann = hit[0].annotation
                if wrap:
                    continue  # wrapped: the Literal sits inside the template; checked unwrapped only
                if not (isinstance(ann, ast.Subscript) and isinstance(ann.value, ast.Name) and ann.value.id == "Literal"):
                    return False
                elts = ann.slice.elts if isinstance(ann.slice, ast.Tuple) else [ann.slice]
                got_vals = [e.value for e in elts if isinstance(e, ast.Constant)]
                want_vals = list(EVAL_VALUES[src_name])
                if len(got_vals) != len(want_vals) or any(type(g) is not type(w) or g != w for g, w in zip(got_vals, want_vals)):
                    return False
        in_names = [p.split(".")[-1] for p in ins]
        out_names = [p.split(".")[-1] for p in outs]
        if ev:
            in_names = out_names  # eval mode keeps the output's name
        else:
            # "applies every input/output pair": every addressed location now carries the input's name and (unwrapped) its annotation
            in_tree = ast.parse(in_src)
            for pth, ip in zip(outs, ins):
                src_node = resolve(ip.split("."), in_tree)[0]
                hit = resolve(pth.split(".")[:-1] + [ip.split(".")[-1]], after)
                if not hit:
                    return False
                if not wrap and ast.dump(hit[0].annotation) != ast.dump(src_node.annotation):
                    return False
        a = mask(after, outs, in_names)
        b = mask(before, outs, out_names)
        return a == b


SAME_SRC = "top: int = 1\n\n\nclass K(object):\n    a: int = 2\n    b: str = 'x'\n\n    def m(self, c: float, d: bool = True):\n        return c\n\n    def n(self, e: int, f: str):\n        return e\n"
SAME_PAIRS = [("top", "K.b"), ("K.m.c", "K.n.e"), ("K.a", "top"), ("K.n.f", "K.m.c"), ("K.b", "top"), ("top", "K.a")]  # like replaces like; no name collisions


def same_file(pi, wrap, npairs):
    """input file and output file are the SAME file: the addressed location takes the input's property, the input location itself
    and every other node keep their tree"""
    pi, wrap, npairs = realize((pi, wrap, npairs))
    with untraced():
        pairs = [SAME_PAIRS[(pi + k) % len(SAME_PAIRS)] for k in range(npairs)]
        if len({o for _, o in pairs}) < len(pairs) or any(i == o2 for i, _ in pairs for _, o2 in pairs):
            return True  # a location that is both read and overwritten in one call: order-dependent, outside the claim
        fs = FS({"/p/m.py": SAME_SRC})
        undo = install(fs, *MODS)
        try:
            doctrans.sync_properties.sync_properties(False, "/p/m.py", [i for i, _ in pairs], "/p/m.py", [o for _, o in pairs], WRAP if wrap else None)
        finally:
            undo()
        after, before = ast.parse(fs.files["/p/m.py"]), ast.parse(SAME_SRC)
        for ip, op in pairs:
            src = resolve(ip.split("."), before)[0]
            hit = resolve(op.split(".")[:-1] + [ip.split(".")[-1]], after)
            if not hit:
                return False
            if not wrap and ast.dump(hit[0].annotation) != ast.dump(src.annotation):
                return False
            # the input location itself is untouched
            still = [h for h in resolve(ip.split("."), after) if h is not hit[0]] or resolve(ip.split("."), after)
            if not still or ast.dump(still[0].annotation) != ast.dump(src.annotation):
                return False
        # every node that is neither addressed nor the replacement: unchanged
        def mask(tree, locs):
            for segs in locs:
                for h in resolve(segs, tree)[:1]:
                    if isinstance(h, ast.arg):
                        h.arg, h.annotation = "<masked>", None
                    else:
                        h.target, h.annotation, h.value = ast.Name("<masked>", ast.Store()), ast.Name("m", ast.Load()), None
            return ast.dump(tree)
        a = mask(after, [op.split(".")[:-1] + [ip.split(".")[-1]] for ip, op in pairs])
        b = mask(before, [op.split(".") for _, op in pairs])
        return a == b


EVAL_SRC2 = "import math\n\nx = ('np', 'tf', 'jax')\ny = (2, 1)\nz = ('b',)\n"
EVAL_VALUES2 = {"x": ("np", "tf", "jax"), "y": (2, 1), "z": ("b",)}


def eval_twice(o, first):
    """eval mode, two calls in one process on the SAME input path whose content changed in between: the second Literal holds the
    values of the file as it is then"""
    o, first = realize((o, first))
    with untraced():
        name = ("x", "y", "z")[first]
        outp = OUT_PATHS[o][first % 3]
        if _arg_with_default(OUT_SRC[o], outp):
            return True  # KF-C14-eval-arg-default-crash region
        for src, vals in ((EVAL_SRC, EVAL_VALUES), (EVAL_SRC2, EVAL_VALUES2)):
            fs = FS({"/p/in.py": src, "/p/out.py": OUT_SRC[o]})
            undo = install(fs, *MODS)
            try:
                doctrans.sync_properties.sync_properties(True, "/p/in.py", [name], "/p/out.py", [outp], None)
            finally:
                undo()
            hit = resolve(outp.split("."), ast.parse(fs.files["/p/out.py"]))
            if not hit:
                return False
            ann = hit[0].annotation
            if not (isinstance(ann, ast.Subscript) and getattr(ann.value, "id", "") == "Literal"):
                return False
            elts = ann.slice.elts if isinstance(ann.slice, ast.Tuple) else [ann.slice]
            got = [e.value for e in elts if isinstance(e, ast.Constant)]
            if got != list(vals[name]) or [type(g) for g in got] != [type(v) for v in vals[name]]:
                return False
        return True


def obligations(tier, seed):
    obs = []
    obs.append(Ob(name="same_file", params=[("pi", "int"), ("wrap", "int"), ("n", "int")], pre=["0 <= pi < %d" % len(SAME_PAIRS), "0 <= wrap <= 1", "1 <= n <= 2"],
                  body="H.same_file(pi, wrap, n)", witness=(0, 1, 1), kind="F",
                  bounds="input file == output file; %d (input, output) location pairs (attribute -> attribute, argument -> argument), 1..2 pairs per "
                  "call, wrap template on/off" % len(SAME_PAIRS), timeout=200, funcs=FUNCS))
    obs.append(Ob(name="eval_twice", params=[("o", "int"), ("f", "int")], pre=["0 <= o <= 2", "0 <= f <= 2"], body="H.eval_twice(o, f)", witness=(0, 0),
                  kind="F", bounds="eval mode called twice in one process on the same input path with changed values in between; 3 output modules x 3 "
                  "input names", timeout=200, funcs=FUNCS))
    for sid0, (skel, k) in OUT_SKELS.items():
        sid = "c14_" + sid0
        for L in (1, 2, 3):
            nn = ["n%d" % i for i in range(k)]
            ss = ["s%d" % i for i in range(L)]
            N = "H.C15.nm(" + ", ".join(nn) + ")"
            S = "H.C15.nm(" + ", ".join(ss) + ")"
            a = "%r, %d, %s, %s" % (sid, L, N, S)
            for ip in range(3):
                for wrap in (0, 1):
                    if tier == "quick" and (ip + wrap + L) % 2:
                        continue
                    fn = lambda s_, L_, N_, S_, ip=ip, wrap=wrap: unit(s_, L_, ip, wrap, N_, S_)  # noqa: E731
                    w = C15._pick_witness(sid, k, L, fn, (C15.r_nested, C15.r_const, r_not_property))
                    if w is None:
                        continue
                    obs.append(Ob(
                        name="unit_%s_L%d_in%d_w%d" % (sid0, L, ip, wrap), params=[(x, "int") for x in nn + ss],
                        pre=["H.C15.names_ok(%s)" % ", ".join(nn + ss), "H.C15.valid(%r, %s)" % (sid, N), "not H.r_not_property(%s)" % a],
                        body="H.unit(%r, %d, %d, %d, %s, %s)" % (sid, L, ip, wrap, N, S), witness=w,
                        bounds="output skeleton %s = %r with symbolic identifiers, output location of %d symbolic segments (resolving or not), "
                        "input location %s, wrap template %s" % (sid0, skel, L, ".".join(IN_PATHS[ip]), "on" if wrap else "off"),
                        kf=[("KF-C15-nested", "H.C15.r_nested(%s)" % a), ("KF-C15-const", "H.C15.r_const(%s)" % a)],
                        timeout=150 if tier == "quick" else 600, path_timeout=60, funcs=FUNCS))
    obs.append(Ob(name="file_level", params=[("c", "int")], pre=["0 <= c < %d" % len(FTABLE)], body="H.file_level(c, {ACTIVE})",
                  witness=(0,), kind="F",
                  bounds="sync_properties on the in-memory FS: 3 output modules x 1..3 input/output pairs x rotation of which locations are paired x "
                  "wrap on/off x eval on/off (%d configurations, exhaustive)" % len(FTABLE),
                  timeout=280 if tier == "quick" else 900, path_timeout=120, funcs=FUNCS))
    return obs
