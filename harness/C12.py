"""
C12 - output is a deterministic function of the input.

1. hash randomisation = set iteration order: the solver-ordered-set shim (lib/ndorder.py) is bound over OrderedDict / set /
   frozenset in every doctrans module; the conversions of partially documented definitions run under it and the result must
   equal the run with the identity order, for every order the solver can pick.  A source scanner lists set-iteration sites the
   shim cannot intercept; any such site makes the scan obligation inconclusive (named), never silently passed.
2. hidden state: module-level bindings and function attributes of the doctrans modules are unchanged by a conversion with
   symbolic content; and f(x) after g(y) equals f(x) alone for a solver-chosen g.
3. replay of any counterexample runs the conversion in sub-processes under different PYTHONHASHSEED values.
"""
import ast
import subprocess
import sys
import types

from harness import C07
from lib import ndorder, prelude  # noqa: F401
from lib.chutil import realize, untraced
from lib.domain import emit_kind, mk_ir, parse_kind
from lib.ob import Ob, ZOb
from lib.skel import same_tree

import doctrans.ast_utils
import doctrans.defaults_utils
import doctrans.docstring_parsers
import doctrans.docstring_utils
import doctrans.emit
import doctrans.emitter_utils
import doctrans.parse
import doctrans.parser_utils
import doctrans.pure_utils
import doctrans.source_transformer
from doctrans import emit, parse

MODS = [doctrans.ast_utils, doctrans.defaults_utils, doctrans.docstring_parsers, doctrans.docstring_utils, doctrans.emit,
        doctrans.emitter_utils, doctrans.parse, doctrans.parser_utils, doctrans.pure_utils, doctrans.source_transformer]
FUNCS = C07.FUNCS + ["doctrans.emit.function", "doctrans.emit.class_", "doctrans.emit.docstring"]
ASSUMPTIONS = [
    "set iteration order is modelled by lib/ndorder.py bound over OrderedDict/set/frozenset names in the doctrans modules; sites it cannot "
    "intercept are found by an AST scan of the current source and make the scan obligation inconclusive",
    "gen (imports, globals().update), locale/encoding and id()-dependent ordering are outside the claim",
]


def _convert(fd):
    ir = parse.function(fd)
    out = emit.function(ir, function_name="f", function_type=None, word_wrap=False)
    ir2 = dict(ir)
    ir2.pop("_internal", None)
    return ir2, out


def hashorder(style, c, p0, p1, p2, p3):
    """parse + emit of a partially documented definition is the same for every set-iteration order"""
    c = realize(c)
    cfg = HASH_CFGS[c]
    npos, nd, nkw, kwmask, has_kw, docmask, perm = cfg
    names = list(C07.POS[:npos]) + list(C07.KWO[:nkw]) + (["kw"] if has_kw else [])
    documented = C07._documented(names, docmask, perm)
    if style == 0 and "kw" in documented:
        return True  # AssertionError cell (KF-C07-kwarg-untyped-assert): nothing to compare
    undo = ndorder.install(MODS)
    try:
        ndorder.PICKS[0] = ()
        fd = C07.mk_fn(npos, nd, nkw, kwmask, has_kw, 0, style, documented, (11, 12, 13, 21, 22))
        ir_a, out_a = _convert(fd)
        ndorder.PICKS[0] = (p0, p1, p2, p3)
        fd = C07.mk_fn(npos, nd, nkw, kwmask, has_kw, 0, style, documented, (11, 12, 13, 21, 22))
        ir_b, out_b = _convert(fd)
    finally:
        ndorder.PICKS[0] = ()
        undo()
    return list(ir_a["params"].items()) == list(ir_b["params"].items()) and ir_a.get("returns") == ir_b.get("returns") and same_tree(out_a, out_b)


# the configurations with the most names (2 positional + 1 keyword-only [+ **kw]) and every documented subset / order:
# those are the ones in which a set of >= 2 names can be iterated at all
HASH_CFGS = sorted([c for c in C07.CONFIGS["quick"] if c[0] == 2 and c[1] == 1 and c[2] == 1 and c[3] == 1], key=lambda c: c[4])
N_NOKW = len([c for c in HASH_CFGS if c[4] == 0])  # quick tier: the configurations without **kw come first


MULTI_PHRASE = ("learning rate. Default: 0.01. With momentum it defaults to 0.1",
                "rate. Default value is 5. When tuned, defaults to 7",
                "x defaults to\n3. Default: 4")


def hashorder_extract(i, p0, p1, p2, p3):
    """a description that contains SEVERAL announcement phrases: which one is read must not depend on the iteration order of any set"""
    from doctrans.defaults_utils import extract_default

    i = realize(i)
    ndorder.PICKS[0] = ()
    ref = (extract_default(MULTI_PHRASE[i]), extract_default(MULTI_PHRASE[i], emit_default_doc=False))
    undo = ndorder.install(MODS)
    try:
        ndorder.PICKS[0] = (p0, p1, p2, p3)
        got = (extract_default(MULTI_PHRASE[i]), extract_default(MULTI_PHRASE[i], emit_default_doc=False))
    finally:
        ndorder.PICKS[0] = ()
        undo()
    return got == ref


def merge_order(p0, p1, p2):
    """ir_merge alone: the relative order of the appended signature-only names is source order for every set order"""
    from doctrans.parser_utils import ir_merge

    undo = ndorder.install([doctrans.parser_utils])
    try:
        ndorder.PICKS[0] = (p0, p1, p2)
        OD = ndorder.NDOrderedDict
        t = {"params": OD([("b", {"doc": "the b"})]), "returns": None}
        o = {"params": OD([("a", {"typ": "int"}), ("b", {"typ": "str"}), ("c", {"typ": "int"}), ("d", {})]), "returns": None}
        ir_merge(t, o)
    finally:
        ndorder.PICKS[0] = ()
        undo()
    return [n for n in t["params"] if n != "b"] == ["a", "c", "d"] and t["params"]["b"].get("typ") == "str"


def _snapshot():
    snap = {}
    for m in MODS:
        for k, v in m.__dict__.items():
            if k.startswith("__"):
                continue
            snap[(m.__name__, k)] = id(v)
            if isinstance(v, types.FunctionType):
                snap[(m.__name__, k, "attrs")] = tuple(sorted((a, id(b)) for a, b in v.__dict__.items()))
            elif isinstance(v, (dict, list, set)) and not isinstance(v, type):
                snap[(m.__name__, k, "len")] = len(v)
    return snap


def hidden_state(kind_idx, p, d):
    """a conversion leaves every module-level binding and function attribute of the doctrans modules unchanged"""
    kind = ("rest", "numpydoc", "google", "class", "function", "argparse")[kind_idx]
    before = _snapshot()
    ir = mk_ir("p2_d_then_plain", p=p, d=d)
    parse_kind(emit_kind(ir, kind), kind)
    return _snapshot() == before


def after_other(g, f):
    """f(x) after g(y) equals f(x) in a fresh interpreter (g, f chosen by the solver among the conversions)"""
    g, f = realize((g, f))
    with untraced():
        _run_kind(g, "p2_both_d")
        again = _run_kind(f, "p3_mixed")
        return again == prepared()["kinds"][f]


USER_DOCS = [
    """Train the model.

Args:
  epochs (int): number of epochs. Defaults to 5
  verbose (bool): whether to log

Returns:
  float: the loss

Raises:
  ValueError: when epochs is negative
""",
    """Train the model.

Parameters
----------
epochs : int
    number of epochs
verbose : bool
    whether to log

Returns
-------
float
    the loss

Notes
-----
Uses the default optimiser.
""",
    """Pick a backend.

Args:
  backend (str): {'np', 'tf'}
  k (int): the k
""",
    """Summary

:param a: the a. Defaults to 5
:type a: ```int```

:returns: the result
:rtype: ```int```
""",
]


FRESH_SCRIPT = r'''
import sys, json
sys.path.insert(0, "/verif")
import lib.prelude
import harness.C12 as H
out = {"docs": [], "kinds": []}
which = sys.argv[1]
if which.startswith("defs"):
    print(json.dumps(H._parse_def(int(which[4:]))))
elif which.startswith("doc"):
    from doctrans import parse
    try:
        print(json.dumps(repr(parse.docstring(H.USER_DOCS[int(which[3:])]))))
    except Exception as e:
        print(json.dumps("EXC " + type(e).__name__))
else:
    print(json.dumps(H._run_kind(int(which[4:]), "p3_mixed")))
'''


def prepare(tier):
    """reference outputs, each computed in a FRESH interpreter (CrossHair re-executes every path in one process, so state that an
    earlier path left behind - a cache, a function attribute - would otherwise be shared by the reference and the run under test)"""
    import json as _json

    from lib.chutil import fresh_env

    env = fresh_env()
    ref = {"docs": [], "kinds": [], "defs": []}
    for i in range(len(USER_DEFS)):
        p = subprocess.run([sys.executable, "-c", FRESH_SCRIPT, "defs%d" % i], capture_output=True, text=True, env=env)
        ref["defs"].append(_json.loads(p.stdout.strip().splitlines()[-1]))
    for i in range(len(USER_DOCS)):
        p = subprocess.run([sys.executable, "-c", FRESH_SCRIPT, "doc%d" % i], capture_output=True, text=True, env=env)
        ref["docs"].append(_json.loads(p.stdout.strip().splitlines()[-1]))
    for k in range(7):
        p = subprocess.run([sys.executable, "-c", FRESH_SCRIPT, "kind%d" % k], capture_output=True, text=True, env=env)
        ref["kinds"].append(_json.loads(p.stdout.strip().splitlines()[-1]))
    return ref


_PREP = []


def prepared():
    if not _PREP:
        import json as _json
        import os

        f = os.environ.get("VERIF_PREPARED")
        _PREP.append(_json.load(open(f)) if f and os.path.exists(f) else prepare("quick"))
    return _PREP[0]


KINDS7 = ("rest", "numpydoc", "google", "class", "function", "method", "argparse")


def _run_kind(k, sid):
    ir = mk_ir(sid, p="the a", d=3, s="x", b=True)
    art = emit_kind(ir, KINDS7[k])
    got = parse_kind(art, KINDS7[k])
    got.pop("_internal", None)
    return [art if isinstance(art, str) else ast.dump(art), repr(got)]


USER_DEFS = [
    'class Dataset(object):\n    """"""\n    learning_rate: float = 0.5\n    epochs: int = 3\n',
    'def train(a, b=2):\n    """"""\n    return a\n',
    'class Empty(object):\n    """   """\n    momentum: float = 0.9\n',
    'class NoDoc(object):\n    x: int = 1\n',
    'def documented(a):\n    """\n    Summary\n\n    :param a: the a\n    """\n    return a\n',
    'def nodoc(a, *, k=1):\n    return a\n',
]


def _parse_def(i):
    node = ast.parse(USER_DEFS[i]).body[0]
    ir = parse.class_(node) if isinstance(node, ast.ClassDef) else parse.function(node)
    ir = dict(ir)
    ir.pop("_internal", None)
    out = emit.class_(ir, class_name="K") if isinstance(node, ast.ClassDef) else emit.function(ir, function_name=node.name, function_type=None)
    return [repr(ir), ast.dump(out)]


def defs_sequence(g, f):
    """a user definition f parsed (and re-emitted) after another definition g equals f in a fresh interpreter - including definitions
    whose docstring is present but empty"""
    g, f = realize((g, f))
    with untraced():
        _parse_def(g)
        return _parse_def(f) == prepared()["defs"][f]


def repeat_text(i, n, j):
    """the same source text parsed n times in one process (with another text parsed in between) gives the same description each time"""
    i, n, j = realize((i, n, j))
    with untraced():
        outs = []
        for r in range(n):
            try:
                outs.append(repr(parse.docstring(USER_DOCS[i])))
            except Exception as e:  # the same text must fail the same way every time, too
                outs.append("EXC " + type(e).__name__)
            try:
                parse.docstring(USER_DOCS[j])
            except Exception:
                pass
        return set(outs) == {prepared()["docs"][i]}  # ... and the same as in a fresh interpreter


COLLIDE = [(False, "bool"), (True, "bool"), (0, "int"), (1, "int"), (0.0, "float"), (1.0, "float")]


# pairs of values that are == and hash-equal but differ in type, both orders
CPAIRS = [(a, b) for a in range(6) for b in range(6) if a != b and COLLIDE[a][0] == COLLIDE[b][0]]
CTABLE = [(e1, e2, a, b) for e1 in range(6) for e2 in range(6) for (a, b) in CPAIRS]
CKINDS = ("function", "class", "argparse", "rest", "numpydoc", "google")


def collide_idx(c):
    c = realize(c)
    return collide(*CTABLE[c])


def collide(e1, e2, a, b):
    """two successive conversions in one process with defaults that compare equal but differ in type (False/0/0.0, True/1/1.0): the
    second conversion - emission AND parsing back - carries ITS OWN default, value and type (absolute oracle, so the order of evaluation
    cannot hide it; a cache keyed by == anywhere on the way is exactly what this finds)"""
    with untraced():
        from collections import OrderedDict as OD

        def ir(v, t):
            return {"name": None, "type": "static", "doc": "Summary line", "returns": None,
                    "params": OD([("x", {"typ": t, "doc": "the x", "default": v})])}

        def convert(which, v, t):
            kind = CKINDS[which]
            art = emit_kind(ir(v, t), kind, {"kwonly": False})
            if kind == "function":
                node_val = art.args.defaults[0].value
            elif kind == "class":
                node_val = [x for x in art.body if isinstance(x, ast.AnnAssign)][0].value.value
            elif kind == "argparse":
                call = [x for x in ast.walk(art) if isinstance(x, ast.Call) and getattr(x.func, "attr", "") == "add_argument"][0]
                node_val = [k.value.value for k in call.keywords if k.arg == "default"][0]
            else:
                node_val = v
            back = parse_kind(art, kind)["params"]["x"].get("default")
            return node_val, back

        convert(e1, *COLLIDE[a])
        emitted, parsed = convert(e2, *COLLIDE[b])
        want = COLLIDE[b][0]
        return type(emitted) is type(want) and emitted == want and type(parsed) is type(want) and parsed == want


def scan():
    sites = ndorder.scan_sites()
    bad = [s for s in sites if s[2] == "display"]
    if bad:
        return {"status": "inconclusive", "detail": "set-iteration sites the shim cannot intercept: %r" % (bad,), "queries": len(sites)}
    return {"status": "discharged", "detail": "set-iteration sites (all intercepted by the shim): %r" % (sites,), "queries": max(len(sites), 1)}


from harness.C07 import SEED_SCRIPT, seed_sweep  # noqa: E402,F401


def _grid_rows(tier):
    from lib import grid

    ids = grid.select(tier, salt=3)
    size = 120 if tier == "quick" else 300
    return [ids[i:i + size] for i in range(0, len(ids), size)]


def _grid_conv(rid, kind):
    """emitted artefact (as text) and the description parsed back from it, or the exception type"""
    import ast as _ast
    from lib.domain import emit_kind, mk_ir, parse_kind

    try:
        art = emit_kind(mk_ir(rid), kind, {})
        txt = art if isinstance(art, str) else _ast.unparse(_ast.fix_missing_locations(art))
        back = parse_kind(art, kind, {})
        back.pop("_internal", None)
        return (txt, repr(back))
    except Exception as e:
        return ("EXC", type(e).__name__)


def grid_repeat(quick, chunk, i):
    """generated shape i of the chunk: each of the 7 conversions gives the same bytes before and after converting ANOTHER description"""
    from lib.domain import KINDS

    i = realize(i)
    with untraced():
        rows = _grid_rows("quick" if quick else "thorough")[chunk]
        rid, other = rows[i], rows[(i * 7 + 3) % len(rows)]
        for k in KINDS:
            a1 = _grid_conv(rid, k)
            _grid_conv(other, KINDS[(KINDS.index(k) + i) % len(KINDS)])
            if _grid_conv(rid, k) != a1:
                return False
        return True


GRID_SEED_SCRIPT = r'''
import sys, hashlib
sys.path.insert(0, "/verif")
import lib.prelude
import harness.C12 as H
from lib.domain import KINDS
h = hashlib.sha256()
for ch in H._grid_rows(sys.argv[1]):
    for rid in ch:
        for k in KINDS:
            h.update(repr(H._grid_conv(rid, k)).encode())
print(h.hexdigest())
'''


def grid_seed_sweep(tier, n):
    import subprocess
    import sys as _sys
    from concurrent.futures import ThreadPoolExecutor
    from lib.chutil import fresh_env

    def one(seed):
        p = subprocess.run([_sys.executable, "-c", GRID_SEED_SCRIPT, tier], capture_output=True, text=True, env=fresh_env(seed))
        return p.returncode, p.stdout.strip(), p.stderr[-300:]

    seeds = list(range(n)) + ["random"]
    with ThreadPoolExecutor(4) as ex:
        res = list(ex.map(one, seeds))
    if any(rc != 0 for rc, _, _ in res):
        return {"status": "inconclusive", "detail": [e for rc, _, e in res if rc != 0][0], "queries": len(seeds)}
    digs = {d for _, d, _ in res}
    nrows = sum(len(c) for c in _grid_rows(tier))
    if len(digs) == 1:
        return {"status": "discharged", "detail": "identical digest of %d rows x 7 conversions (emitted bytes and parsed-back description) under "
                "PYTHONHASHSEED 0..%d and random" % (nrows, n - 1), "queries": len(seeds)}
    return {"status": "violated", "detail": "%d different digests across hash seeds" % len(digs), "cex": {"seeds": n}, "queries": len(seeds)}


def obligations(tier, seed):
    obs = []
    for c, ids in enumerate(_grid_rows(tier)):
        obs.append(Ob(name="grid_repeat_%d" % c, params=[("i", "int")], pre=["0 <= i < %d" % len(ids)],
                      body="H.grid_repeat(%r, %d, i)" % (tier == "quick", c), witness=(0,), kind="F",
                      bounds="generated shapes %s..%s (%d rows of lib/grid.py, table-indexed): all 7 conversions, repeated after converting another row"
                      % (ids[0], ids[-1], len(ids)), timeout=300 if tier == "quick" else 1200, path_timeout=100, funcs=FUNCS))
    obs.append(ZOb(name="hashseed_sweep_grid", run=lambda: grid_seed_sweep(tier, 4 if tier == "quick" else 12),
                   replay=lambda cex: (grid_seed_sweep(tier, 4)["status"] == "violated", "re-ran the sweep"),
                   bounds="process-level cross-check: every generated shape of the tier through all 7 conversions in sub-processes under "
                   "PYTHONHASHSEED 0..%d and random" % (3 if tier == "quick" else 11)))
    N = N_NOKW if tier == "quick" else len(HASH_CFGS)
    chunks = 1 if tier == "quick" else 6
    for style in range(3):
        for ch in range(chunks):
            lo, hi = N * ch // chunks, N * (ch + 1) // chunks
            pmax = (2, 1, 0) if tier == "quick" else (3, 2, 1)
            obs.append(Ob(
                name="hashorder_s%d_%d" % (style, ch), params=[("c", "int"), ("p0", "int"), ("p1", "int"), ("p2", "int"), ("p3", "int")],
                pre=["%d <= c < %d" % (lo, hi), "0 <= p0 <= %d and 0 <= p1 <= %d and 0 <= p2 <= %d and p3 == 0" % pmax],
                body="H.hashorder(%d, c, p0, p1, p2, p3)" % style, witness=(lo, 1, 0, 0, 0), kind="S",
                bounds="C07 configurations %d..%d of the %d with 2 positional + 1 keyword-only (+ **kw) parameters, every documented subset and "
                "order, style %d; iteration order of every name set: picks p0<=%d, p1<=%d, p2<=%d (all orders of sets of <=%d names)"
                % (lo, hi - 1, N, style, pmax[0], pmax[1], pmax[2], 3 if tier == "quick" else 4),
                timeout=280 if tier == "quick" else 1800, path_timeout=100, funcs=FUNCS))
    obs.append(Ob(name="hashorder_extract_default", params=[("i", "int"), ("p0", "int"), ("p1", "int"), ("p2", "int"), ("p3", "int")],
                  pre=["0 <= i < %d" % len(MULTI_PHRASE), "0 <= p0 <= 3 and 0 <= p1 <= 2 and 0 <= p2 <= 1 and p3 == 0"],
                  body="H.hashorder_extract(i, p0, p1, p2, p3)", witness=(0, 1, 0, 0, 0),
                  bounds="extract_default on %d descriptions holding two different announcement phrases, under every iteration order of every "
                  "set of <= 4 elements (picks symbolic)" % len(MULTI_PHRASE), timeout=150, funcs=["doctrans.defaults_utils.extract_default", "doctrans.pure_utils.location_within"]))
    obs.append(Ob(name="merge_order", params=[("p0", "int"), ("p1", "int"), ("p2", "int")],
                  pre=["0 <= p0 <= 2 and 0 <= p1 <= 1 and p2 == 0"], body="H.merge_order(p0, p1, p2)", witness=(1, 0, 0),
                  bounds="ir_merge of a docstring-side {b} with a signature-side {a,b,c,d}; every iteration order of the name sets",
                  timeout=100, funcs=["doctrans.parser_utils.ir_merge"]))
    for k in range(6):
        obs.append(Ob(name="hidden_state_%d" % k, params=[("p", "str"), ("d", "int")],
                      pre=["1 <= len(p) <= 2", "all(c in 'ab .' for c in p)", "p[0] != ' ' and p[-1] != ' '", "-2 <= d <= 2"],
                      body="H.hidden_state(%d, p, d)" % k, witness=("a", 1),
                      bounds="conversion kind %d on shape p2_d_then_plain with symbolic prose (len<=2) and int default" % k,
                      timeout=150 if tier == "quick" else 600, path_timeout=100, funcs=FUNCS))
    obs.append(Ob(name="after_other", params=[("g", "int"), ("f", "int")], pre=["0 <= g < 7 and 0 <= f < 7"],
                  body="H.after_other(g, f)", witness=(0, 3), kind="F",
                  bounds="every ordered pair (g, f) of the 7 conversions: f after g equals f alone", timeout=200, funcs=FUNCS))
    obs.append(Ob(name="defs_sequence", params=[("g", "int"), ("f", "int")], pre=["0 <= g < %d and 0 <= f < %d" % (len(USER_DEFS), len(USER_DEFS))],
                  body="H.defs_sequence(g, f)", witness=(0, 1), kind="F",
                  bounds="pool of %d user definitions (classes / functions with an empty, blank, absent or ordinary docstring): every ordered pair, "
                  "the second judged against a fresh-interpreter reference" % len(USER_DEFS), timeout=150, funcs=FUNCS))
    obs.append(Ob(name="repeat_text", params=[("i", "int"), ("n", "int"), ("j", "int")],
                  pre=["0 <= i < %d and 0 <= j < %d" % (len(USER_DOCS), len(USER_DOCS)), "2 <= n <= 3"], body="H.repeat_text(i, n, j)",
                  witness=(0, 2, 1), kind="F",
                  bounds="pool of %d user-written docstrings (Google with sections after Args, numpydoc with Notes, a {..} choice literal, ReST); "
                  "parsed 2..3 times with any other text in between" % len(USER_DOCS), timeout=150, funcs=FUNCS))
    obs.append(Ob(name="equal_but_different_defaults", params=[("c", "int")], pre=["0 <= c < %d" % len(CTABLE)],
                  body="H.collide_idx(c)", witness=(CTABLE.index((0, 3, 0, 4)),), kind="F",
                  bounds="two successive conversions (emit + parse back; function / class / argparse / rest / numpydoc / google, 36 ordered kind pairs) "
                  "whose defaults are == and hash-equal but differ in type (%d ordered value pairs from %r)" % (len(CPAIRS), [c[0] for c in COLLIDE]),
                  timeout=280, funcs=FUNCS))
    obs.append(ZOb(name="set_iteration_scan", run=scan, bounds="AST scan of /repo/doctrans/*.py for iteration over set-valued expressions"))
    obs.append(ZOb(name="hashseed_sweep", run=lambda: seed_sweep(8 if tier == "quick" else 32),
                   replay=lambda cex: (seed_sweep(8)["status"] == "violated", "re-ran the sweep"),
                   bounds="process-level cross-check: the C07 configuration table converted in sub-processes under PYTHONHASHSEED 0..%d and random"
                   % (7 if tier == "quick" else 31)))
    return obs
