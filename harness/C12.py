"""
C12 - output is a deterministic function of the input.

1. hash randomisation = set iteration order: the solver-ordered-set shim (lib/ndorder.py) is bound over OrderedDict / set /
   frozenset in every doctrans module; the conversions of partially documented definitions run under it and the result must
   equal the run with the identity order, for every order the solver can pick.  A source scanner lists set-iteration sites the
   shim cannot intercept; any such site makes the scan obligation inconclusive (named), never silently passed.
2. hidden state: module-level bindings and function attributes of the doctrans modules are unchanged by a conversion with
   symbolic content; and f(x) after g(y) equals f(x) alone for a solver-chosen g.
3. replay of any counterexample runs the conversion in sub-processes under different PYTHONHASHSEED values.
"""
import ast
import subprocess
import sys
import types

from harness import C07
from lib import ndorder, prelude  # noqa: F401
from lib.chutil import realize, untraced
from lib.domain import emit_kind, mk_ir, parse_kind
from lib.ob import Ob, ZOb
from lib.skel import same_tree

import doctrans.ast_utils
import doctrans.defaults_utils
import doctrans.docstring_parsers
import doctrans.docstring_utils
import doctrans.emit
import doctrans.emitter_utils
import doctrans.parse
import doctrans.parser_utils
import doctrans.pure_utils
import doctrans.source_transformer
from doctrans import emit, parse

MODS = [doctrans.ast_utils, doctrans.defaults_utils, doctrans.docstring_parsers, doctrans.docstring_utils, doctrans.emit,
        doctrans.emitter_utils, doctrans.parse, doctrans.parser_utils, doctrans.pure_utils, doctrans.source_transformer]
FUNCS = C07.FUNCS + ["doctrans.emit.function", "doctrans.emit.class_", "doctrans.emit.docstring"]
ASSUMPTIONS = [
    "set iteration order is modelled by lib/ndorder.py bound over OrderedDict/set/frozenset names in the doctrans modules; sites it cannot "
    "intercept are found by an AST scan of the current source and make the scan obligation inconclusive",
    "gen (imports, globals().update), locale/encoding and id()-dependent ordering are outside the claim",
]


def _convert(fd):
    ir = parse.function(fd)
    out = emit.function(ir, function_name="f", function_type=None, word_wrap=False)
    ir2 = dict(ir)
    ir2.pop("_internal", None)
    return ir2, out


def hashorder(style, c, p0, p1, p2, p3):
    """parse + emit of a partially documented definition is the same for every set-iteration order"""
    c = realize(c)
    cfg = HASH_CFGS[c]
    npos, nd, nkw, kwmask, has_kw, docmask, perm = cfg
    names = list(C07.POS[:npos]) + list(C07.KWO[:nkw]) + (["kw"] if has_kw else [])
    documented = C07._documented(names, docmask, perm)
    if style == 0 and "kw" in documented:
        return True  # AssertionError cell (KF-C07-kwarg-untyped-assert): nothing to compare
    undo = ndorder.install(MODS)
    try:
        ndorder.PICKS[0] = ()
        fd = C07.mk_fn(npos, nd, nkw, kwmask, has_kw, 0, style, documented, (11, 12, 13, 21, 22))
        ir_a, out_a = _convert(fd)
        ndorder.PICKS[0] = (p0, p1, p2, p3)
        fd = C07.mk_fn(npos, nd, nkw, kwmask, has_kw, 0, style, documented, (11, 12, 13, 21, 22))
        ir_b, out_b = _convert(fd)
    finally:
        ndorder.PICKS[0] = ()
        undo()
    return list(ir_a["params"].items()) == list(ir_b["params"].items()) and ir_a.get("returns") == ir_b.get("returns") and same_tree(out_a, out_b)


# the configurations with the most names (2 positional + 1 keyword-only [+ **kw]) and every documented subset / order:
# those are the ones in which a set of >= 2 names can be iterated at all
HASH_CFGS = sorted([c for c in C07.CONFIGS["quick"] if c[0] == 2 and c[1] == 1 and c[2] == 1 and c[3] == 1], key=lambda c: c[4])
N_NOKW = len([c for c in HASH_CFGS if c[4] == 0])  # quick tier: the configurations without **kw come first


def merge_order(p0, p1, p2):
    """ir_merge alone: the relative order of the appended signature-only names is source order for every set order"""
    from doctrans.parser_utils import ir_merge

    undo = ndorder.install([doctrans.parser_utils])
    try:
        ndorder.PICKS[0] = (p0, p1, p2)
        OD = ndorder.NDOrderedDict
        t = {"params": OD([("b", {"doc": "the b"})]), "returns": None}
        o = {"params": OD([("a", {"typ": "int"}), ("b", {"typ": "str"}), ("c", {"typ": "int"}), ("d", {})]), "returns": None}
        ir_merge(t, o)
    finally:
        ndorder.PICKS[0] = ()
        undo()
    return [n for n in t["params"] if n != "b"] == ["a", "c", "d"] and t["params"]["b"].get("typ") == "str"


def _snapshot():
    snap = {}
    for m in MODS:
        for k, v in m.__dict__.items():
            if k.startswith("__"):
                continue
            snap[(m.__name__, k)] = id(v)
            if isinstance(v, types.FunctionType):
                snap[(m.__name__, k, "attrs")] = tuple(sorted((a, id(b)) for a, b in v.__dict__.items()))
            elif isinstance(v, (dict, list, set)) and not isinstance(v, type):
                snap[(m.__name__, k, "len")] = len(v)
    return snap


def hidden_state(kind_idx, p, d):
    """a conversion leaves every module-level binding and function attribute of the doctrans modules unchanged"""
    kind = ("rest", "numpydoc", "google", "class", "function", "argparse")[kind_idx]
    before = _snapshot()
    ir = mk_ir("p2_d_then_plain", p=p, d=d)
    parse_kind(emit_kind(ir, kind), kind)
    return _snapshot() == before


def after_other(g, f):
    """f(x) after g(y) equals f(x) alone (g, f chosen by the solver among the conversions)"""
    g, f = realize((g, f))
    kinds = ("rest", "numpydoc", "google", "class", "function", "method", "argparse")
    with untraced():
        def run(k, sid):
            ir = mk_ir(sid, p="the a", d=3, s="x", b=True)
            art = emit_kind(ir, kinds[k])
            got = parse_kind(art, kinds[k])
            got.pop("_internal", None)
            return art if isinstance(art, str) else ast.dump(art), repr(got)

        alone = subprocess.run  # noqa: F841  (kept: replay uses sub-processes, see replay_hashseed)
        ref = run(f, "p3_mixed")
        run(g, "p2_both_d")
        again = run(f, "p3_mixed")
        return ref == again


def scan():
    sites = ndorder.scan_sites()
    bad = [s for s in sites if s[2] == "display"]
    if bad:
        return {"status": "inconclusive", "detail": "set-iteration sites the shim cannot intercept: %r" % (bad,), "queries": len(sites)}
    return {"status": "discharged", "detail": "set-iteration sites (all intercepted by the shim): %r" % (sites,), "queries": max(len(sites), 1)}


SEED_SCRIPT = r'''
import sys, ast
sys.path.insert(0, "/verif")
import lib.prelude
import harness.C07 as C07
from doctrans import parse, emit
out = []
for style in range(3):
    for cfg in C07.CONFIGS["quick"]:
        npos, nd, nkw, kwmask, has_kw, docmask, perm = cfg
        names = list(C07.POS[:npos]) + list(C07.KWO[:nkw]) + (["kw"] if has_kw else [])
        documented = C07._documented(names, docmask, perm)
        if style == 0 and "kw" in documented:
            continue
        fd = C07.mk_fn(npos, nd, nkw, kwmask, has_kw, 0, style, documented, (11, 12, 13, 21, 22))
        ir = parse.function(fd)
        out.append(repr(list(ir["params"].items())))
        out.append(ast.unparse(ast.fix_missing_locations(emit.function(ir, "f", None, word_wrap=False))))
import hashlib
print(hashlib.sha256("\n".join(out).encode()).hexdigest())
'''


def seed_sweep(n):
    """process-level confirmation used on replay (and once per run as a cheap cross-check): identical digest under n hash seeds"""
    digs = set()
    for seed in list(range(n)) + ["random"]:
        env = {"PYTHONHASHSEED": str(seed), "PATH": "/usr/bin:/bin", "PYTHONDONTWRITEBYTECODE": "1"}
        p = subprocess.run([sys.executable, "-c", SEED_SCRIPT], capture_output=True, text=True, env=env)
        if p.returncode != 0:
            return {"status": "inconclusive", "detail": p.stderr[-400:]}
        digs.add(p.stdout.strip())
    if len(digs) == 1:
        return {"status": "discharged", "detail": "identical output digest under PYTHONHASHSEED 0..%d and random" % (n - 1), "queries": n + 1}
    return {"status": "violated", "detail": "%d different outputs across hash seeds" % len(digs), "cex": {"seeds": n}, "queries": n + 1}


def obligations(tier, seed):
    obs = []
    N = N_NOKW if tier == "quick" else len(HASH_CFGS)
    chunks = 1 if tier == "quick" else 6
    for style in range(3):
        for ch in range(chunks):
            lo, hi = N * ch // chunks, N * (ch + 1) // chunks
            pmax = (2, 1, 0) if tier == "quick" else (3, 2, 1)
            obs.append(Ob(
                name="hashorder_s%d_%d" % (style, ch), params=[("c", "int"), ("p0", "int"), ("p1", "int"), ("p2", "int"), ("p3", "int")],
                pre=["%d <= c < %d" % (lo, hi), "0 <= p0 <= %d and 0 <= p1 <= %d and 0 <= p2 <= %d and p3 == 0" % pmax],
                body="H.hashorder(%d, c, p0, p1, p2, p3)" % style, witness=(lo, 1, 0, 0, 0), kind="S",
                bounds="C07 configurations %d..%d of the %d with 2 positional + 1 keyword-only (+ **kw) parameters, every documented subset and "
                "order, style %d; iteration order of every name set: picks p0<=%d, p1<=%d, p2<=%d (all orders of sets of <=%d names)"
                % (lo, hi - 1, N, style, pmax[0], pmax[1], pmax[2], 3 if tier == "quick" else 4),
                timeout=280 if tier == "quick" else 1800, path_timeout=100, funcs=FUNCS))
    obs.append(Ob(name="merge_order", params=[("p0", "int"), ("p1", "int"), ("p2", "int")],
                  pre=["0 <= p0 <= 2 and 0 <= p1 <= 1 and p2 == 0"], body="H.merge_order(p0, p1, p2)", witness=(1, 0, 0),
                  bounds="ir_merge of a docstring-side {b} with a signature-side {a,b,c,d}; every iteration order of the name sets",
                  timeout=100, funcs=["doctrans.parser_utils.ir_merge"]))
    for k in range(6):
        obs.append(Ob(name="hidden_state_%d" % k, params=[("p", "str"), ("d", "int")],
                      pre=["1 <= len(p) <= 2", "all(c in 'ab .' for c in p)", "p[0] != ' ' and p[-1] != ' '", "-2 <= d <= 2"],
                      body="H.hidden_state(%d, p, d)" % k, witness=("a", 1),
                      bounds="conversion kind %d on shape p2_d_then_plain with symbolic prose (len<=2) and int default" % k,
                      timeout=150 if tier == "quick" else 600, path_timeout=100, funcs=FUNCS))
    obs.append(Ob(name="after_other", params=[("g", "int"), ("f", "int")], pre=["0 <= g < 7 and 0 <= f < 7"],
                  body="H.after_other(g, f)", witness=(0, 3), kind="F",
                  bounds="every ordered pair (g, f) of the 7 conversions: f after g equals f alone", timeout=200, funcs=FUNCS))
    obs.append(ZOb(name="set_iteration_scan", run=scan, bounds="AST scan of /repo/doctrans/*.py for iteration over set-valued expressions"))
    obs.append(ZOb(name="hashseed_sweep", run=lambda: seed_sweep(4 if tier == "quick" else 32),
                   replay=lambda cex: (seed_sweep(8)["status"] == "violated", "re-ran the sweep"),
                   bounds="process-level cross-check: the C07 configuration table converted in sub-processes under PYTHONHASHSEED 0..%d and random"
                   % (3 if tier == "quick" else 31)))
    return obs
