"""
C09 - sync makes every target agree with the declared truth, whatever the target looked like before.

(F) family: the configuration vector (truth kind, which kinds are given, pre-state of every non-truth target, top-level function vs
method, which interface description) is chosen and exhausted by the solver; the real conformance.ground_truth (and __main__.main)
run on the in-memory file system of lib/fsstub.py with real black; file contents are concrete (they cross ast.parse / black).
"""
import ast

from harness.rt import TOL, permitted, tolerated  # noqa: F401
from harness.syncenv import *  # noqa: F401,F403
from harness.syncenv import FILES, KINDS, PRE, build, fn_name, parse_target, run_sync
from lib.chutil import realize, untraced
from lib.domain import iface_diffs
from lib.ob import Ob

FUNCS = ["doctrans.conformance.ground_truth", "doctrans.conformance._conform_filename", "doctrans.conformance._default_options",
         "doctrans.conformance._get_name_from_namespace", "doctrans.ast_utils.find_in_ast", "doctrans.ast_utils.annotate_ancestry",
         "doctrans.ast_utils.RewriteAtQuery", "doctrans.emit.file", "doctrans.source_transformer.ast_parse", "doctrans.__main__.main",
         "doctrans.emit.*", "doctrans.parse.*"]
ASSUMPTIONS = [
    "file system = lib/fsstub.py bound into doctrans.emit/.conformance/.sync_properties/.__main__ (open, os.path subset); real disk "
    "semantics, symlinks, encodings, concurrent writers are outside the claim",
    "configuration space: 3 truth kinds x {all three kinds, truth + one other (2 ways)} x 5 pre-states per non-truth target x "
    "function|method x 2 interface descriptions; exhaustive (solver-enumerated); contents concrete",
    "`python -m doctrans` cannot start on this interpreter (third-party `meta` import defect): the command line is exercised through "
    "doctrans.__main__.main(argv) in-process",
]
RTK = {"argparse_function": "argparse", "class": "class"}


def givens(truth):
    others = [k for k in KINDS if k != truth]
    return [tuple(KINDS), (truth, others[0]), (truth, others[1])]


def agrees(truth_i, given_i, pa, pb, method, ir_idx, active, via_main=False):
    truth_i, given_i, pa, pb, method, ir_idx = realize((truth_i, given_i, pa, pb, method, ir_idx))
    with untraced():
        truth = KINDS[truth_i]
        given = givens(truth)[given_i]
        others = [k for k in given if k != truth]
        pre = dict(zip(others, (pa, pb)))
        if any(st == 5 and k != "class" for k, st in pre.items()):
            return True  # the extra-trailing-member pre-state is built for class targets only
        try:
            fs = build(truth, given, pre, method, ir_idx)
        except IndexError:
            # the harness' own rendering of an 'agreeing' argparse target hits KF-C09-empty-return-default
            if "KF-C09-empty-return-default" in active and truth == "class" and ir_idx == 1 and "argparse_function" in given:
                return True
            raise
        truth_ir = parse_target(truth, fs.files[FILES[truth]], method)
        truth_ir.pop("_internal", None)
        before_texts = dict(fs.files)
        try:
            if via_main:
                run_main(fs, truth, given, method)
            else:
                run_sync(fs, truth, given, method)
        except IndexError:
            rt_ = (truth_ir.get("returns") or {}).get("return_type") or {}
            if ("KF-C09-empty-return-default" in active and "argparse_function" in given and truth != "argparse_function"
                    and isinstance(rt_.get("default"), str) and rt_.get("default") == ""):
                return True
            raise
        for k in given:
            if (method and k == "function" and k != truth and PRE[pre[k]] in ("missing", "empty", "absent")
                    and "KF-C09-method-created-toplevel" in active):
                continue  # the method is written as a top-level function: C.train does not exist afterwards
            if FILES[k] not in fs.files:
                return False
            ir_k = parse_target(k, fs.files[FILES[k]], method)  # ast.parse: a SyntaxError here is a violation
            if ir_k is None:
                return False
            # "exactly one": a target that held at most one definition of that name before holds exactly one afterwards (a leftover
            # copy of an earlier description next to the new one is not 'the named definition describes the truth')
            if k != truth and not method and _ndefs(k, fs.files[FILES[k]]) > 1 and _ndefs(k, before_texts.get(FILES[k], "")) <= 1 and not (
                    "KF-C09-stale-function" in active and k in ("function", "argparse_function") and PRE[pre.get(k, 4)] in ("stale", "stale_extra")):
                return False
            kind = RTK.get(k, "method" if method else "function")
            tk = RTK.get(truth, "method" if method else "function")
            for where, code in iface_diffs(ir_k, truth_ir, kind, defaults_on=False):
                if permitted(where, code, kind, truth_ir, chain=(tk,)):
                    continue
                if tolerated(kind, where, code, truth_ir, {"emit_default_doc": False}, active) or tolerated(tk, where, code, truth_ir, {"emit_default_doc": False}, active):
                    continue
                rt_ = (truth_ir.get("returns") or {}).get("return_type") or {}
                if ("KF-C09-empty-return-default" in active and where == "returns" and code == "default-lost"
                        and isinstance(rt_.get("default"), str) and rt_["default"] == ""):
                    continue  # emit.function drops an empty-string return default (falsy)
                if "KF-C09-stale-function" in active and k in ("function", "argparse_function") and PRE[pre.get(k, 4)] in ("stale", "stale_extra"):
                    continue
                return False
        return True


def _ndefs(kind, text):
    """number of module-level definitions carrying the target's name"""
    name = {"argparse_function": "set_cli_args", "class": "ConfigClass", "function": "train"}[kind]
    try:
        body = ast.parse(text).body
    except SyntaxError:
        return 0
    return len([n for n in body if isinstance(n, (ast.FunctionDef, ast.ClassDef)) and n.name == name])


def second_file(truth_i, st, method, ir_idx, active):
    """a SECOND file of the truth's own kind (e.g. --class truth.py --class other.py --truth class) is a target like any other"""
    truth_i, st, method, ir_idx = realize((truth_i, st, method, ir_idx))
    with untraced():
        from harness.syncenv import EXTRA, IRS, STALE, render
        from lib.fsstub import FS

        truth = KINDS[truth_i]
        ir = IRS[ir_idx]()
        files = {FILES[truth]: render(truth, ir, method)}
        if st == 1:
            files[EXTRA] = "import os\n\nX = 1\n"
        elif st == 2:
            files[EXTRA] = render(truth, STALE(), method)
        fs = FS(files)
        truth_ir = parse_target(truth, files[FILES[truth]], method)
        truth_ir.pop("_internal", None)
        other = [k for k in KINDS if k != truth][0]
        try:
            run_sync(fs, truth, (truth, other), method, extra=True)
        except IndexError:
            rt_ = (truth_ir.get("returns") or {}).get("return_type") or {}
            if ("KF-C09-empty-return-default" in active and other == "argparse_function"
                    and isinstance(rt_.get("default"), str) and rt_["default"] == ""):
                return True
            raise
        if EXTRA not in fs.files:
            return False
        if truth != "class" and st == 2 and "KF-C09-stale-function" in active:
            return True
        if method and truth == "function" and st in (0, 1) and "KF-C09-method-created-toplevel" in active:
            return True
        ir_k = parse_target(truth, fs.files[EXTRA], method)
        if ir_k is None:
            return False
        kind = RTK.get(truth, "method" if method else "function")
        for where, code in iface_diffs(ir_k, truth_ir, kind, defaults_on=False):
            if permitted(where, code, kind, truth_ir, chain=(kind,)) or tolerated(kind, where, code, truth_ir, {"emit_default_doc": False}, active):
                continue
            return False
        return True


def run_main(fs, truth, given, method):
    import io
    from contextlib import redirect_stdout

    import doctrans.__main__
    from harness.syncenv import MODS, NAMES
    from lib.fsstub import install

    argv = ["sync", "--truth", truth]
    flag = {"argparse_function": "--argparse-function", "class": "--class", "function": "--function"}
    for k in given:
        argv += [flag[k], FILES[k], flag[k] + "-name", fn_name(method) if k == "function" else NAMES[k]]
    undo = install(fs, *MODS)
    try:
        with redirect_stdout(io.StringIO()):
            doctrans.__main__.main(argv)
    finally:
        undo()


def agrees_twice(truth_i, pre, i1, i2, active):
    """two syncs in ONE process: same paths, same target texts (fresh in-memory projects), a different truth description the second time -
    the second result must agree with the second truth (nothing may survive from the first run)"""
    truth_i, pre, i1, i2 = realize((truth_i, pre, i1, i2))
    return agrees(truth_i, 0, pre, pre, 0, i1, active) and agrees(truth_i, 0, pre, pre, 0, i2, active)


def grid_clean(rid, truth):
    """generated shapes (lib/grid.py) outside the regions of the round-trip family's known findings for a sync with this truth kind"""
    from lib import grid
    from lib.domain import ABSENT
    from doctrans.ast_utils import NoneStr

    _, params, ret = grid.ROWS[rid]
    es = [(n, t, p, d) for n, t, p, d in params] + ([("return_type", ret[0], ret[1], ret[2])] if ret else [])
    code = lambda d: isinstance(d, str) and d.startswith("```") and d != NoneStr  # noqa: E731
    if any(t is None or not p for _, t, p, _ in params):
        return False  # untyped / prose-less parameters
    if any(t in [x for x, _ in grid.TD_MORE] for _, t, _, _ in es):
        return False  # nested generics with str defaults: regions of KF-RT-fn-typ-from-default and friends
    if any(p.startswith(("Optional", "(Optional)")) for _, _, p, _ in params):
        return False  # KF-RT-optional-prose-wraps-type
    if any(isinstance(d, str) and "." in d and not code(d) for _, _, _, d in es):
        return False  # KF-RT-str-default-dot
    if any(isinstance(d, str) and (d == "" or code(d)) for _, _, _, d in es):
        return False  # empty-string and code defaults
    if any(t == "Union[int, str]" and d != ABSENT for _, t, _, d in es):
        return False
    if any(d == NoneStr and t in ("int", "str", "float", "bool") for _, t, _, d in params):
        return False  # KF-RT-class-none-to-zero
    if any(t == "bool" and d == ABSENT for _, t, _, d in params):
        return False  # KF-RT-argparse-bool-optional
    if ret and ret[2] == ABSENT:
        return False  # only a return entry that carries a default is representable everywhere
    if truth == "argparse_function":
        if ret or any(n.endswith("kwargs") for n, _, _, _ in params):
            return False
        if any((d == ABSENT and t not in ("int", "str", "float")) or d == NoneStr for _, t, _, d in params):
            return False
    return True


def grid_cells(tier):
    from harness.syncenv import GRID_IDS

    cells = [(t, i) for i, rid in enumerate(GRID_IDS) for t in range(3) if grid_clean(rid, KINDS[t])]
    return cells if tier != "quick" else [c for n, c in enumerate(cells) if n % 6 == 0]


def agrees_grid(quick, c, pre, method, active):
    """cell c = (truth kind, generated shape): all three kinds given, both targets in pre-state `pre`"""
    c = realize(c)
    t, i = grid_cells("quick" if quick else "thorough")[c]
    return agrees(t, 0, pre, pre, method, 100 + i, active)


def obligations(tier, seed):
    obs = []
    ncell = len(grid_cells(tier))
    for pre_, m in ((0, 0), (2, 0), (3, 0), (0, 1)) if tier == "quick" else [(0, 0), (2, 0), (3, 0), (0, 1)]:
        for lo in range(0, ncell, 32):
            hi = min(lo + 32, ncell)
            if tier == "quick" and (pre_, m, lo // 32) not in ((0, 0, 0), (3, 0, 1), (0, 1, 2)):
                continue
            obs.append(Ob(name="agrees_grid_%s_%s_%d" % (PRE[pre_], "method" if m else "function", lo // 32), params=[("c", "int")],
                          pre=["%d <= c < %d" % (lo, hi)],
                          body="H.agrees_grid(%r, c, %d, %d, {ACTIVE})" % (tier == "quick", pre_, m), witness=(lo,), kind="F",
                          bounds="cells %d..%d of %d (truth kind x generated shape of lib/grid.py outside the known-finding regions of the round-trip "
                          "family - grid_clean), all three kinds given, both targets %s, function target is a %s"
                          % (lo, hi - 1, ncell, PRE[pre_], "method" if m else "top-level function"),
                          timeout=600 if tier == "quick" else 1800, path_timeout=120, funcs=FUNCS))
    for t in range(3):
        for m in (0, 1):
            for via in (False, True):
                if via and (tier == "quick" and (t + m) % 2):
                    continue
                obs.append(Ob(
                    name="agrees_%s_%s%s" % (KINDS[t], "method" if m else "function", "_main" if via else ""),
                    params=[("g", "int"), ("pa", "int"), ("pb", "int"), ("i", "int")],
                    pre=["0 <= g <= 2", "0 <= pa <= 5", "0 <= pb <= 5", "0 <= i <= 2", "g == 0 or pb == 0"] + (["i == 0"] if via else []),
                    body="H.agrees(%d, g, pa, pb, %d, i, {ACTIVE}, via_main=%r)" % (t, m, via), witness=(0, 4, 4, 0), kind="F",
                    bounds="truth=%s, function target is a %s, via %s; which kinds are given (all three / truth + one other), the pre-state of every "
                    "non-truth target in {missing, empty, definition absent, stale, agreeing, stale-with-one-extra-trailing-parameter} and the interface description (pool of 3, one with a return entry that carries a default): exhaustive"
                    % (KINDS[t], "method" if m else "top-level function", "__main__.main(argv)" if via else "conformance.ground_truth"),
                    timeout=280 if tier == "quick" else 1200, path_timeout=120, funcs=FUNCS))
    obs.append(Ob(name="agrees_twice_in_one_process", params=[("t", "int"), ("pre", "int"), ("i1", "int"), ("i2", "int")],
                  pre=["0 <= t <= 2", "1 <= pre <= 3", "0 <= i1 <= 2", "0 <= i2 <= 2", "i1 != i2"], body="H.agrees_twice(t, pre, i1, i2, {ACTIVE})",
                  witness=(1, 1, 0, 2), kind="F",
                  bounds="every truth kind x targets {empty, definition absent, stale} x every ordered pair of different descriptions from the pool of 3: two "
                  "syncs in one process on identical paths and target texts", timeout=280, funcs=FUNCS))
    obs.append(Ob(name="absent_but_nested_same_name", params=[("t", "int"), ("g", "int"), ("i", "int")], pre=["0 <= t <= 2", "0 <= g <= 2", "0 <= i <= 2"],
                  body="H.agrees(t, g, 6, 6, 0, i, {ACTIVE})", witness=(1, 0, 0), kind="F",
                  bounds="every truth kind x which kinds are given x 3 descriptions; every target file lacks the definition at module level but holds "
                  "definitions with the same simple names nested inside another class", timeout=200, funcs=FUNCS))
    obs.append(Ob(name="second_file_of_truth_kind", params=[("t", "int"), ("st", "int"), ("m", "int"), ("i", "int")],
                  pre=["0 <= t <= 2", "0 <= st <= 2", "0 <= m <= 1", "0 <= i <= 1"], body="H.second_file(t, st, m, i, {ACTIVE})",
                  witness=(1, 0, 0, 0), kind="F",
                  bounds="a second file listed under the truth's own kind, pre-state in {missing, definition absent, stale}, every truth kind, "
                  "function|method, 2 descriptions", timeout=200, funcs=FUNCS))
    return obs
