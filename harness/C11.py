"""
C11 - sync preserves everything it was not asked to change.

(S) tree level: RewriteAtQuery on hand-built modules with symbolic identifiers (target class before / between / after sibling
    statements, siblings that share method / parameter names with it): every node other than the addressed one is structurally
    unchanged, order preserved, exactly one replacement.
(F) text level: the real conformance.ground_truth on the in-memory FS over a pool of target modules x {position of the named
    definition, trailing newline yes/no, pre-state}: the written file parses, and with the named definition masked the tree is
    identical to the tree before.
"""
import ast

from harness import C15
from harness.syncenv import *  # noqa: F401,F403
from harness.syncenv import FILES, KINDS, IRS, STALE, parse_target, render, run_sync
from lib.chutil import realize, untraced
from lib.fsstub import FS
from lib.ob import Ob

FUNCS = ["doctrans.ast_utils.annotate_ancestry", "doctrans.ast_utils.RewriteAtQuery", "doctrans.ast_utils.find_in_ast",
         "doctrans.conformance._conform_filename", "doctrans.conformance.ground_truth", "doctrans.emit.file",
         "doctrans.source_transformer.ast_parse", "doctrans.source_transformer.to_code"]
ASSUMPTIONS = [
    "comments and formatting are not part of the syntax tree and are outside the claim (the property asks for an identical tree)",
    "(F): module pool of 4 surroundings x 3 positions x trailing newline x {stale, agreeing, absent}; contents concrete; real black",
]

# extra skeletons for the tree level: the addressed class among siblings
C15.SKELS.update({
    "c11_between": ([("imp",), ("asg", 0), ("cls", 1, [("ann", 2), ("meth", 3, [4], "self")]), ("cls", 5, [("meth", 3, [4], "self")])], 6),
    "c11_after": ([("fn", 0, [1]), ("cls", 2, [("ann", 1)]), ("cls", 3, [("ann", 1), ("ann", 4)])], 5),
    "c11_first": ([("cls", 0, [("ann", 1)]), ("asg", 1), ("fn", 2, [1])], 3),
})

SURROUND = [
    ["import os", "X = 1"],
    ["import os", "def helper(a, dataset_name=5):\n    return a"],
    ["class Other(object):\n    a: int = 1\n\n    def train(self, a):\n        return a", "Y = [1, 2]"],
    ["def train_all(a):\n    \"\"\"doc\"\"\"\n    return a", "class ConfigClassBase(object):\n    pass"],
    ["import os", "ConfigClass = os.path.join(ConfigClass.__name__, 'x') if False else ConfigClass\nset_cli_args = set_cli_args\ntrain = train"],
    # definitions with the target's name INSIDE a coroutine / an except handler that precede the target (other scopes, must be left alone)
    ["async def fetch(a):\n    class ConfigClass(object):\n        z: int = 0\n\n    def set_cli_args(p):\n        return p\n\n    train = a\n    return ConfigClass",
     "try:\n    import os\nexcept ImportError as err:\n    ConfigClass = None"],
    # the usual optional-dependency fallback: the name is also defined inside an except handler (no `as`), before the target
    ["try:\n    from fast import ConfigClass, set_cli_args, train\nexcept ImportError:\n    class ConfigClass(object):\n        z: int = 0\n\n"
     "    def set_cli_args(p):\n        return p\n\n    def train(x):\n        return x", "Y = 3"],
    # a helper BEFORE the target that binds the target's name locally, inside unnamed compound statements
    ["def load(kind):\n    if kind:\n        ConfigClass = None\n        set_cli_args = None\n    for train in ():\n        pass\n"
     "    with open(kind) as f:\n        class ConfigClass(object):\n            z: int = 0\n    return kind", "Z = 4"],
    # a module docstring with a blank line inside and at its end (first statement when the target does not come first)
    ['"""Module docstring.\n\nSecond paragraph.\n"""', "Z = 5"],
    # string literals whose lines consist of blanks / a tab only, in statements sync was not asked to touch
    ['BANNER = """usage:\n    \n  tool [options]\n\t\n"""', "def helper(a):\n    return \'\'\'first\n  \nlast\'\'\'"],
]


def _mask(tree, kind, method):
    """the module body without the named definition"""
    out = []
    for n in tree.body:
        if kind == "class" and isinstance(n, ast.ClassDef) and n.name == "ConfigClass":
            continue
        if kind == "argparse_function" and isinstance(n, ast.FunctionDef) and n.name == "set_cli_args":
            continue
        if kind == "function" and not method and isinstance(n, ast.FunctionDef) and n.name == "train":
            continue
        if kind == "function" and method and isinstance(n, ast.ClassDef) and n.name == "C":
            n = ast.ClassDef(name=n.name, bases=n.bases, keywords=n.keywords, decorator_list=n.decorator_list, type_params=[],
                             body=[m for m in n.body if not (isinstance(m, ast.FunctionDef) and m.name == "train")] or [ast.Pass()])
        out.append(n)
    return [ast.dump(n) for n in out]


def _count(tree, kind, method):
    if kind == "class":
        return len([n for n in tree.body if isinstance(n, ast.ClassDef) and n.name == "ConfigClass"])
    if kind == "argparse_function":
        return len([n for n in tree.body if isinstance(n, ast.FunctionDef) and n.name == "set_cli_args"])
    if method:
        return len([m for n in tree.body if isinstance(n, ast.ClassDef) and n.name == "C" for m in n.body
                    if isinstance(m, ast.FunctionDef) and m.name == "train"])
    return len([n for n in tree.body if isinstance(n, ast.FunctionDef) and n.name == "train"])


TABLE = [(tk, sur, pos, nl, st, method)
         for tk in range(3) for sur in range(len(SURROUND)) for pos in range(3) for nl in (0, 1) for st in ("stale", "agreeing", "absent")
         for method in (0, 1) if not (method and tk != 2)]


def cell_files(truth_i, c):
    """the project of table cell c: truth file + one target module with surroundings"""
    tk, sur, pos, nl, st, method = TABLE[c]
    truth, target = KINDS[truth_i], KINDS[tk]
    ir = IRS[0]()
    files = {FILES[truth]: render(truth, ir, method)}
    gold = parse_target(truth, files[FILES[truth]], method)
    gold.pop("_internal", None)
    parts = list(SURROUND[sur])
    if st != "absent":
        parts.insert(min(pos, len(parts)), render(target, STALE() if st == "stale" else gold, method).rstrip("\n"))
    text = "\n\n".join(parts) + ("\n" if nl else "")
    files[FILES[target]] = text
    return files, text


def preserve(truth_i, c, active):
    """target kind tk (!= truth) lives in a module with surrounding statements; after sync the rest of the module is untouched"""
    c = realize(c)
    with untraced():
        tk, sur, pos, nl, st, method = TABLE[c]
        truth, target = KINDS[truth_i], KINDS[tk]
        if truth == target:
            return True
        files, text = cell_files(truth_i, c)
        fs = FS(files)
        before = ast.parse(text)
        kf_cell = False
        if sur == 4 and not method:
            if st != "absent" and target in ("function", "argparse_function") and "KF-C15-fnreplace" in active:
                # the FunctionDef itself is never replaced (known finding), so the replacement lands on the NEXT node that carries
                # the same location - the assignment `name = name` - instead of leaving everything else alone
                kf_cell = True
            if "KF-C11-same-name-assign" in active and (st == "absent" or (target == "class" and pos == 2)):
                # a module-level assignment to the target's name precedes (or stands in for) the definition and is taken for it
                kf_cell = True
        try:
            run_sync(fs, truth, (truth, target), method)
        except AssertionError:
            if kf_cell:
                return True
            raise
        if kf_cell:
            return True
        after_text = fs.files[FILES[target]]
        try:
            after = ast.parse(after_text)
        except SyntaxError:
            if "KF-C11-append-no-newline" in active and st == "absent" and not nl:
                return True
            raise
        if "KF-C06-black-docstring" in active:
            # black rewrites whitespace inside every docstring of the module: compare modulo that
            from harness.C06 import _norm_docstrings

            before, after = _norm_docstrings(before), _norm_docstrings(after)
        fn_before_cls = False
        for n in before.body:
            if isinstance(n, ast.ClassDef) and n.name == "C":
                break
            if isinstance(n, ast.FunctionDef):
                fn_before_cls = True
        if method and ((st == "absent" and "KF-C09-method-created-toplevel" in active)
                       or (fn_before_cls and "KF-C15-fnskip" in active and "KF-C09-method-created-toplevel" in active)):
            # the method is added as a top-level function `train`: apart from that statement nothing may change
            rest = [ast.dump(n) for n in after.body if not (isinstance(n, ast.FunctionDef) and n.name == "train")]
            return rest == [ast.dump(n) for n in before.body]
        if _mask(before, target, method) != _mask(after, target, method):
            return False
        return _count(after, target, method) == 1


def failed_render(truth_i, c):
    """rendering the re-emitted module fails (the formatter raises): the target module, surroundings included, keeps every byte"""
    import doctrans.emit

    c = realize(c)
    with untraced():
        tk, sur, pos, nl, st, method = TABLE[c]
        truth, target = KINDS[truth_i], KINDS[tk]
        if truth == target:
            return True
        files, text = cell_files(truth_i, c)
        fs = FS(files)
        real = doctrans.emit.format_str

        def failing(*a, **kw):
            raise RuntimeError("injected formatter fault")

        doctrans.emit.format_str = failing
        try:
            try:
                run_sync(fs, truth, (truth, target), method)
            except (RuntimeError, AssertionError):
                pass
        finally:
            doctrans.emit.format_str = real
        return fs.files.get(FILES[target]) == files[FILES[target]]


def obligations(tier, seed):
    obs = []
    for t in range(3):
        obs.append(Ob(name="failed_render_truth_%s" % KINDS[t], params=[("c", "int")],
                      pre=["0 <= c < %d" % len(TABLE), "c %% 6 == %d" % t] if tier == "quick" else ["0 <= c < %d" % len(TABLE)],
                      body="H.failed_render(%d, c)" % t, witness=(t if tier == "quick" else 0,), kind="F",
                      bounds="truth %s; target modules with surrounding code (%s of the %d cells of the C11 table); the code formatter raises while the "
                      "re-emitted module is rendered: the target file keeps every byte" % (KINDS[t], "every sixth" if tier == "quick" else "all", len(TABLE)),
                      timeout=280 if tier == "quick" else 900, path_timeout=120, funcs=["doctrans.emit.file", "doctrans.conformance._conform_filename"]))
    for sid in ("c11_between", "c11_after", "c11_first"):
        skel, k = C15.SKELS[sid]
        for L in (1, 2):
            nn = ["n%d" % i for i in range(k)]
            ss = ["s%d" % i for i in range(L)]
            N = "H.C15.nm(" + ", ".join(nn) + ")"
            S = "H.C15.nm(" + ", ".join(ss) + ")"
            a = "%r, %d, %s, %s" % (sid, L, N, S)
            w = C15._pick_witness(sid, k, L, C15.rewrite, (C15.r_fnrepl, C15.r_nested, C15.r_const))
            if w is None:
                continue
            obs.append(Ob(
                name="tree_%s_L%d" % (sid, L), params=[(x, "int") for x in nn + ss],
                pre=["H.C15.names_ok(%s)" % ", ".join(nn + ss), "H.C15.valid(%r, %s)" % (sid, N)],
                body="H.C15.rewrite(%s)" % a, witness=w,
                bounds="skeleton %s = %r; RewriteAtQuery at a symbolic location of length %d; all identifiers symbolic" % (sid, skel, L),
                kf=[("KF-C15-fnreplace", "H.C15.r_fnrepl(%s)" % a), ("KF-C15-nested", "H.C15.r_nested(%s)" % a),
                    ("KF-C15-const", "H.C15.r_const(%s)" % a)],
                timeout=150 if tier == "quick" else 600, path_timeout=60, funcs=FUNCS))
    for sid, (skel, k) in C15.DUP_SKELS.items():
        nn = ["n%d" % i for i in range(k)]
        N = "H.C15.nm(" + ", ".join(nn) + ")"
        pre = ["H.C15.names_ok(%s)" % ", ".join(nn)] + (["len(set((%s))) == %d" % (", ".join(nn), k)] if k > 1 else [])
        obs.append(Ob(name="tree_first_only_%s" % sid, params=[(x, "int") for x in nn], pre=pre,
                      body="H.C15.rewrite_first_only(%r, %s)" % (sid, N), witness=tuple(range(k)),
                      bounds="skeleton %s = %r: a later statement of the same scope binds the addressed name again; it must survive the rewrite" % (sid, skel),
                      timeout=100, funcs=FUNCS))
    chunks = 3
    for t in range(3):
        for ch in range(chunks):
            lo, hi = len(TABLE) * ch // chunks, len(TABLE) * (ch + 1) // chunks
            wit = TABLE.index(((t + 1) % 3, 0, 1, 1, "agreeing", 0))
            obs.append(Ob(
                name="text_truth_%s_%d" % (KINDS[t], ch), params=[("c", "int")], pre=["%d <= c < %d" % (lo, hi)],
                body="H.preserve(%d, c, {ACTIVE})" % t, witness=(wit if lo <= wit < hi else lo,), kind="F",
                bounds="truth %s; every target kind x %d surroundings x 3 positions x trailing newline x {stale, agreeing, absent} x function|method "
                "(table entries %d..%d of %d, exhaustive)" % (KINDS[t], len(SURROUND), lo, hi - 1, len(TABLE)),
                timeout=280 if tier == "quick" else 1200, path_timeout=120, funcs=FUNCS))
    return obs
