"""
C10 - sync is idempotent, never edits the truth, and reports changes truthfully.

(F) family over a symbolic HISTORY: k in 1..3 sync invocations, the truth kind of each step chosen by the solver (same or
alternating), starting from every combination of target pre-states; the in-memory FS logs every open/write.
"""
from harness.syncenv import *  # noqa: F401,F403
from harness.syncenv import FILES, KINDS, PRE, build, run_sync
from harness.C09 import givens
from lib.chutil import realize, untraced
from lib.ob import Ob

FUNCS = ["doctrans.conformance.ground_truth", "doctrans.conformance._conform_filename", "doctrans.ast_utils.find_in_ast",
         "doctrans.ast_utils.RewriteAtQuery", "doctrans.emit.file", "doctrans.source_transformer.ast_parse", "doctrans.emit.*", "doctrans.parse.*"]
ASSUMPTIONS = [
    "file system = lib/fsstub.py (every open / write logged); real black; contents concrete; history length <= 3",
    "a step may legitimately change files only if it is the first step or its truth kind differs from the previous step's",
]


inv = {v: k for k, v in FILES.items()}


def _same_ast(a, b):
    import ast

    return ast.dump(ast.parse(a)) == ast.dump(ast.parse(b))


def table(tier):
    out = []
    for n in (1, 2, 3):
        for t2 in range(3):
            for t3 in range(3):
                if (n < 2 and t2) or (n < 3 and t3):
                    continue
                for pa in range(5):
                    for pb in range(5):
                        for i in range(2):
                            out.append((t2, t3, n, pa, pb, i))
    return out


TABLE = table("thorough")


def history_idx(t1, c, method, active, quick):
    c = realize(c)
    t2, t3, n, pa, pb, i = TABLE[c]
    if quick and n == 3 and t2 != t1 and t3 != t2:
        return True  # quick tier: a truth change is followed by a repeat (the other histories belong to the thorough tier)
    return history(t1, t2, t3, n, pa, pb, method, i, active)


def history(t1, t2, t3, n, pa, pb, method, ir_idx, active):
    with untraced():
        truths = [KINDS[t] for t in (t1, t2, t3)[:n]]
        given = tuple(KINDS)
        others = [k for k in given if k != truths[0]]
        pre = dict(zip(others, (pa, pb)))
        try:
            fs = build(truths[0], given, pre, method, ir_idx)
        except IndexError:
            if "KF-C09-empty-return-default" in active and truths[0] == "class" and ir_idx == 1:
                return True
            raise
        prev = None
        for step, truth in enumerate(truths):
            before = fs.snapshot()
            w0, l0 = len(fs.opened_w), len(fs.log)
            try:
                eff, out = run_sync(fs, truth, given, method)
            except IndexError:
                if "KF-C09-empty-return-default" in active and ir_idx == 1:
                    return True
                raise
            except AssertionError:
                if (method and truth == "function" and "KF-C09-method-created-toplevel" in active
                        and PRE[pre.get("function", 4)] in ("missing", "empty", "absent")):
                    return True  # an earlier step wrote a top-level function; the method truth Class.method does not exist
                raise
            after = fs.snapshot()
            # 1. the truth file is never opened for writing by a sync that names it as truth
            if FILES[truth] in fs.opened_w[w0:] or before.get(FILES[truth]) != after.get(FILES[truth]):
                return False
            # 2. the report is true exactly for the files whose bytes changed
            for f, changed in eff.items():
                really = before.get(f) != after.get(f)
                if bool(changed) != really:
                    if "KF-C10-report-rewrite-same-bytes" in active and changed and not really:
                        continue
                    return False
            for line in out.splitlines():
                word, _, f = line.partition("\t")
                if word in ("modified", "unchanged") and (word == "modified") != (before.get(f) != after.get(f)):
                    if "KF-C10-report-rewrite-same-bytes" in active and word == "modified":
                        continue
                    return False
            # 3. files change only on the first run after the truth changed
            if prev == truth and before != after:
                changed_files = {f for f in after if before.get(f) != after.get(f)}
                if (method and "KF-C09-method-created-toplevel" in active
                        and PRE[pre.get("function", 4)] in ("missing", "empty", "absent")):
                    changed_files.discard(FILES["function"])  # Class.method is never found: a top-level copy is appended on every run
                if "KF-C10-append-then-reformat" in active and step == 1:
                    # run 1 appended without separating blank lines; run 2 re-emits the module through black (layout only)
                    changed_files = {f for f in changed_files
                                     if not (PRE[pre.get(inv[f], 4)] == "absent" and _same_ast(before[f], after[f]))}
                if changed_files:
                    return False
            prev = truth
        return True


def shared_file(truth_i, other_i, st, active):
    """ONE file holds the truth definition and a target of another kind and is passed under both options: it is the truth file,
    so a sync that names it as truth must not modify it (and must not report it modified)"""
    truth_i, other_i, st = realize((truth_i, other_i, st))
    with untraced():
        from harness.syncenv import IRS, STALE, render
        from lib.fsstub import FS

        truth, other = KINDS[truth_i], KINDS[other_i]
        if truth == other:
            return True
        ir = IRS[0]()
        text = render(truth, ir).rstrip("\n") + "\n"
        if st == 1:
            text += "\n\n" + render(other, STALE())
        elif st == 2:
            text += "\n\nX = 1\n"
        shared = "/p/config.py"
        third = [k for k in KINDS if k not in (truth, other)][0]
        files = dict(FILES)
        files[truth] = shared
        files[other] = shared
        fs = FS({shared: text})
        for _ in range(2):
            before = fs.snapshot()
            w0 = len(fs.opened_w)
            eff, out = run_sync(fs, truth, (truth, other), 0, files=files)
            if fs.files[shared] != before[shared] or shared in fs.opened_w[w0:]:
                return False
            if eff.get(shared):
                return False
        return True


def converges(truth_i, c, active):
    """target modules WITH surrounding code (the C11 pool: helpers, same-named assignments, coroutines ...): repeated syncs converge -
    whatever the first two runs did, the third changes nothing and no file keeps growing"""
    c = realize(c)
    with untraced():
        from harness import C11
        from lib.fsstub import FS

        tk, sur, pos, nl, st, method = C11.TABLE[c]
        truth, target = KINDS[truth_i], KINDS[tk]
        if truth == target:
            return True
        files, _ = C11.cell_files(truth_i, c)
        fs = FS(files)
        sizes = []
        snaps = []
        for _ in range(3):
            try:
                run_sync(fs, truth, (truth, target), method)
            except AssertionError:
                return True  # an unresolvable target is reported as an error every time: nothing is written (C20 covers the files)
            snaps.append(fs.snapshot())
        if snaps[0] == snaps[1] == snaps[2]:
            return True  # the first run did everything; the second and third change nothing
        if method and "KF-C09-method-created-toplevel" in active:
            # Class.method is never found when it is absent, or when a (plain) function definition precedes the class at module level
            # (KF-C15-fnskip): appended on every run.  Exactly those two situations are tolerated - nothing else.
            import ast as _ast

            body = _ast.parse(files[FILES[target]]).body
            idx = [i for i, n in enumerate(body) if isinstance(n, _ast.ClassDef) and n.name == "C"]
            has_method = bool(idx) and any(isinstance(m, _ast.FunctionDef) and m.name == "train" for m in body[idx[0]].body)
            fn_before = bool(idx) and any(isinstance(n, _ast.FunctionDef) for n in body[:idx[0]])
            if not has_method or fn_before:
                return True
        return False


def obligations(tier, seed):
    obs = []
    for m in (0, 1):
        for t1 in range(3):
            obs.append(Ob(
                name="history_%s_%s" % (KINDS[t1], "method" if m else "function"), params=[("c", "int")],
                pre=["0 <= c < %d" % (len(TABLE) if tier != "quick" else len([x for x in TABLE if x[2] <= 2]))],
                body="H.history_idx(%d, c, %d, {ACTIVE}, %r)" % (t1, m, tier == "quick"), witness=(TABLE.index((0, 0, 1, 4, 4, 0)),), kind="F",
                bounds="first truth %s, function target is a %s; history of 1..%d syncs with solver-chosen truth kinds, all 25 pre-state "
                "combinations, 2 interface descriptions; exhaustive over the configuration table"
                % (KINDS[t1], "method" if m else "top-level function", 2 if tier == "quick" else 3),
                timeout=280 if tier == "quick" else 2400, path_timeout=120, funcs=FUNCS))
    from harness import C11

    for t in range(3):
        for ch in range(2):
            lo, hi = len(C11.TABLE) * ch // 2, len(C11.TABLE) * (ch + 1) // 2
            wit = C11.TABLE.index(((t + 1) % 3, 0, 1, 1, "agreeing", 0))
            obs.append(Ob(name="converges_truth_%s_%d" % (KINDS[t], ch), params=[("c", "int")], pre=["%d <= c < %d" % (lo, hi)],
                          body="H.converges(%d, c, {ACTIVE})" % t, witness=(wit if lo <= wit < hi else lo,), kind="F",
                          bounds="truth %s; target-module configurations %d..%d of C11's %d (surroundings x position x trailing newline x pre-state x "
                          "function|method); three runs: the second and third must not change any byte (method targets: see "
                          "KF-C09-method-created-toplevel)" % (KINDS[t], lo, hi - 1, len(C11.TABLE)),
                          timeout=280 if tier == "quick" else 1200, path_timeout=120, funcs=FUNCS))
    obs.append(Ob(name="shared_truth_file", params=[("t", "int"), ("o", "int"), ("st", "int")], pre=["0 <= t <= 2 and 0 <= o <= 2", "0 <= st <= 2"],
                  body="H.shared_file(t, o, st, {ACTIVE})", witness=(1, 0, 1), kind="F",
                  bounds="one file passed under the truth's option and under another kind's option (3 x 2 kind pairs), holding only the truth / "
                  "also a stale definition of the other kind / other text; two runs", timeout=150, funcs=FUNCS))
    return obs
