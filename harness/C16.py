"""
C16 - implementation bodies are carried through conversions verbatim.

(S) rename: emit.class_(ir_with_body, emit_call=True) applies RewriteName to body templates whose Name ids, keyword-argument
    names, attribute names and nested-function parameter names are SYMBOLIC strings (int-coded 1-char names), the parameter-name
    set being concrete; oracle: a Name becomes self.<id> iff its id is a parameter name and it is not rebound in an inner scope;
    nothing else differs.
(F) shape: the body is a sequence of <= 3 statements whose KINDS are chosen by the solver among assignments, calls with a keyword
    named like a parameter, conditionals with early return, loops, nested defs, comprehensions, string-constant statements,
    plus a final `return <expr>` / bare `return` / nothing; parse_k then emit_k to the same kind and name (function, method,
    argparse function): the carried statements are the same list (structure, order, multiplicity), final return kept once.
"""
import ast
from collections import OrderedDict

from lib import prelude  # noqa: F401
from lib.chutil import realize, untraced
from lib.ob import Ob
from lib.skel import same_tree

from doctrans import emit, parse
from doctrans.emitter_utils import RewriteName

FUNCS = ["doctrans.parse.function", "doctrans.parse.argparse_ast", "doctrans.emit.function", "doctrans.emit.argparse_function",
         "doctrans.emit.class_", "doctrans.emitter_utils.get_internal_body", "doctrans.emitter_utils.RewriteName",
         "doctrans.emitter_utils._make_call_meth", "doctrans.parser_utils._interpolate_return"]
ASSUMPTIONS = [
    "bodies of at most 3 statements + an optional final return; decorators, async, statements after a top-level return (dead code) are outside",
    "(S): identifiers are 1-char names a..h; the parameter set is {a, b}",
]

STMTS = [
    "c = a + b",
    "print(a, b=b)",
    "if a:\n    return 1",
    "for i in range(a):\n    c = i",
    "def inner(a):\n    return a",
    "d = [a for a in range(3)]",
    "'a note'",
    "e = {'k': b}.get('k', a)",
]
FINALS = ["", "return c", "return", "return (a, b)"]
DOC = '"""\n    Summary line\n\n    :param a: the a\n    :type a: ```int```\n\n    :param b: the b\n    :type b: ```int```\n    """'
ARGDOC = ('"""\n    Set CLI arguments\n\n    :param argument_parser: argument parser\n    :type argument_parser: ```ArgumentParser```\n\n'
          '    :returns: argument_parser\n    :rtype: ```ArgumentParser```\n    """')


def _indent(s, n=4):
    return "\n".join(" " * n + l for l in s.split("\n"))


def table():
    out = []
    for n in range(4):
        idx = [[]]
        for _ in range(n):
            idx = [x + [k] for x in idx for k in range(len(STMTS))]
        for sel in idx:
            for fin in range(len(FINALS)):
                out.append((tuple(sel), fin))
    return out


TABLE = table()


def fn_src(sel, fin, method):
    body = [STMTS[k] for k in sel] + ([FINALS[fin]] if FINALS[fin] else [])
    head = "def f(%sa, b=5):" % ("self, " if method else "")
    return head + "\n    " + DOC + "\n" + "\n".join(_indent(s) for s in body) + ("\n" if body else "")


def carried_fn(method, c, active):
    c = realize(c)
    with untraced():
        sel, fin = TABLE[c]
        fd = ast.parse(fn_src(sel, fin, method)).body[0]
        want = [ast.dump(n) for n in fd.body[1:]]
        ir = parse.function(fd)
        out = emit.function(ir, function_name="f", function_type=ir["type"])
        got = [ast.dump(ast.parse(ast.unparse(ast.fix_missing_locations(n))).body[0]) for n in out.body[1:]]
        want = [ast.dump(ast.parse(ast.unparse(n)).body[0]) for n in fd.body[1:]]
        if got == want:
            return True
        if "KF-C16-return-tuple-parens" in active and fin == 3 and got[:-1] == want[:-1]:
            return True
        return False


DOC_FORMS = [DOC, '""""""', '"""   """', None, '"""Summary only"""', '"""\n    Summary line\n\n    :param a: the a\n    """']
DTABLE = [(dv, sel, fin, hops, method) for dv in range(len(DOC_FORMS)) for sel in ((), (0,), (6,), (6, 2)) for fin in (0, 1, 3)
          for hops in (1, 2) for method in (0, 1)]


def carried_docs(c, active):
    """the body survives 1..3 parse/emit hops whatever the docstring looks like (full, empty, blank, absent, summary only, partial)"""
    c = realize(c)
    with untraced():
        dv, sel, fin, hops, method = DTABLE[c]
        body = [STMTS[k] for k in sel] + ([FINALS[fin]] if FINALS[fin] else [])
        if not body:
            body = ["pass"]
        head = "def f(%sa: int, b: int = 5):" % ("self, " if method else "")
        src = head + ("\n    " + DOC_FORMS[dv] if DOC_FORMS[dv] is not None else "") + "\n" + "\n".join(_indent(x) for x in body) + "\n"
        fd = ast.parse(src).body[0]
        has_doc = ast.get_docstring(fd, clean=False) is not None
        want = [ast.dump(ast.parse(ast.unparse(n)).body[0]) for n in fd.body[(1 if has_doc else 0):]]
        cur = fd
        for _ in range(hops):
            ir = parse.function(cur)
            out = emit.function(ir, function_name="f", function_type=ir["type"])
            cur = ast.parse(ast.unparse(ast.fix_missing_locations(out))).body[0]
            got = [ast.dump(n) for n in cur.body[1:]]  # emit.function always writes a docstring first
            if got != want:
                if "KF-C16-return-tuple-parens" in active and fin == 3 and got[:-1] == want[:-1]:
                    continue
                return False
        return True


def argparse_src(sel, fin):
    body = ["argument_parser.description = 'Summary line'", "argument_parser.add_argument('--a', type=int, help='the a', required=True)"]
    extra = [STMTS[k].replace("return 1", "return argument_parser") for k in sel]
    body += extra[:1] + ["argument_parser.add_argument('--b', type=int, help='the b', required=True, default=5)"] + extra[1:]
    body.append(("return argument_parser", "return argument_parser", "return argument_parser, c", "return argument_parser")[fin] if fin != 0 else "return argument_parser")
    doc = ARGDOC
    if fin == 2:
        doc = ARGDOC.replace(":returns: argument_parser", ":returns: argument_parser, the c").replace(
            "```ArgumentParser```\n    \"\"\"", "```Tuple[ArgumentParser, int]```\n    \"\"\"")
    return "def set_cli_args(argument_parser):\n    " + doc + "\n" + "\n".join(_indent(s) for s in body) + "\n", extra


def carried_argparse(c, active):
    c = realize(c)
    with untraced():
        sel, fin = TABLE[c]
        if fin in (1, 3):
            return True  # same as fin 0 for argparse functions
        src, extra = argparse_src(sel, fin)
        fd = ast.parse(src).body[0]
        ir = parse.argparse_ast(fd, function_name="set_cli_args")
        out = emit.argparse_function(ir, function_name="set_cli_args", function_type="static")
        norm = lambda n: ast.dump(ast.parse(ast.unparse(ast.fix_missing_locations(n))).body[0])  # noqa: E731
        is_iface = lambda n: "add_argument" in ast.unparse(n) and isinstance(n, ast.Expr) or "argument_parser.description" in ast.unparse(n)  # noqa: E731
        want = [norm(n) for n in fd.body[1:] if not is_iface(n)]
        got = [norm(n) for n in out.body[1:] if not is_iface(n)]
        if got == want:
            return True
        if "KF-C16-argparse-leading-str-stmt" in active and sel and sel[0] == 6:
            return True
        return False


# ------------------------------------------------------------------------------------------------ (S) rename
def nm(*codes):
    return tuple(chr(97 + c) for c in codes)


SPECIAL = ("return_type", "self", "argument_parser", "cls")  # names that are special inside doctrans


def body_template(N):
    """statements with symbolic identifiers N[0..5]: names, a keyword-argument name, an attribute name, a nested def's parameter"""
    n0, n1, n2, n3, n4, n5 = N
    L, S = ast.Load(), ast.Store()
    return [
        ast.Assign(targets=[ast.Name(n0, S)], value=ast.BinOp(ast.Name(n1, L), ast.Add(), ast.Name(n2, L)), type_comment=None, lineno=1),
        ast.Expr(ast.Call(func=ast.Name("print", L), args=[ast.Name(n1, L)], keywords=[ast.keyword(arg=n3, value=ast.Name(n2, L))])),
        ast.Expr(ast.Attribute(value=ast.Name(n0, L), attr=n4, ctx=L)),
        ast.FunctionDef(name="inner", args=ast.arguments(posonlyargs=[], args=[ast.arg(arg=n5, annotation=None)], vararg=None, kwonlyargs=[],
                                                         kw_defaults=[], kwarg=None, defaults=[]),
                        body=[ast.Return(ast.Name(n5, L))], decorator_list=[], returns=None, type_comment=None, type_params=[], lineno=1),
        ast.Return(ast.Name(n0, L)),
    ]


PARAMS = ("a", "b")


def expected(N):
    """independent model of the renaming: a Name whose id is a parameter and which is not rebound in an inner scope becomes self.<id>"""
    n0, n1, n2, n3, n4, n5 = N
    L, S = ast.Load(), ast.Store()

    def ref(n, bound=()):
        if n in PARAMS and n not in bound:
            return ast.Attribute(ast.Name("self", L), n, L)
        return ast.Name(n, L)

    def tgt(n):
        if n in PARAMS:
            return ast.Attribute(ast.Name("self", L), n, L)
        return ast.Name(n, S)

    return [
        ast.Assign(targets=[tgt(n0)], value=ast.BinOp(ref(n1), ast.Add(), ref(n2)), type_comment=None),
        ast.Expr(ast.Call(func=ast.Name("print", L), args=[ref(n1)], keywords=[ast.keyword(arg=n3, value=ref(n2))])),
        ast.Expr(ast.Attribute(value=ref(n0), attr=n4, ctx=L)),
        ast.FunctionDef(name="inner", args=ast.arguments(posonlyargs=[], args=[ast.arg(arg=n5, annotation=None)], vararg=None, kwonlyargs=[],
                                                         kw_defaults=[], kwarg=None, defaults=[]),
                        body=[ast.Return(ref(n5, bound=(n5,)))], decorator_list=[], returns=None, type_comment=None, type_params=[]),
        ast.Return(ref(n0)),
    ]


def _strip_ctx(x):
    for n in ast.walk(x):
        if hasattr(n, "ctx"):
            n.ctx = ast.Load()
    return x


def rename(c0, c1, c2, c3, c4, c5, active, with_ret=False, first=None):
    N = nm(c0, c1, c2, c3, c4, c5)
    if first is not None:
        N = (first,) + N[1:]  # the assigned local is literally named like something doctrans treats specially
    ir = {"name": "f", "type": "static", "doc": "Summary line",
          "params": OrderedDict([("a", {"typ": "int", "doc": "the a"}), ("b", {"typ": "int", "doc": "the b", "default": 5})]),
          "returns": OrderedDict([("return_type", {"typ": "int", "doc": "the result", "default": "```c```"})]) if with_ret else None,
          "_internal": {"body": body_template(N), "from_name": "f", "from_type": "static"}}
    cd = emit.class_(ir, emit_call=True, class_name="K", word_wrap=False)
    call = [n for n in cd.body if isinstance(n, ast.FunctionDef) and n.name == "__call__"]
    if len(call) != 1:
        return False
    got, want = call[0].body, expected(N)
    if len(got) != len(want):
        return False
    for g, w in zip(got, want):
        if not same_tree(_strip_ctx(g), _strip_ctx(w)):
            if "KF-C16-inner-scope-shadow" in active and isinstance(w, ast.FunctionDef) and N[5] in PARAMS:
                continue
            return False
    return True


def rename_noparams(c0, c1, c2, c3, c4, c5):
    """an interface WITHOUT parameters: no name of the carried body may be touched"""
    N = nm(c0, c1, c2, c3, c4, c5)
    ir = {"name": "f", "type": "static", "doc": "Summary line", "params": OrderedDict(), "returns": None,
          "_internal": {"body": body_template(N), "from_name": "f", "from_type": "static"}}
    cd = emit.class_(ir, emit_call=True, class_name="K", word_wrap=False)
    call = [n for n in cd.body if isinstance(n, ast.FunctionDef) and n.name == "__call__"]
    if len(call) != 1:
        return False
    want = body_template(N)
    got = call[0].body
    return len(got) == len(want) and all(same_tree(_strip_ctx(g), _strip_ctx(w)) for g, w in zip(got, want))


def obligations(tier, seed):
    obs = []
    obs.append(Ob(name="carried_docstring_forms", params=[("c", "int")], pre=["0 <= c < %d" % len(DTABLE)], body="H.carried_docs(c, {ACTIVE})",
                  witness=(0,), kind="F",
                  bounds="%d cells: 6 docstring forms (full, empty, blank, absent, summary only, partial) x 4 bodies x 3 final statements x 1..2 "
                  "parse/emit hops through the text x function|method" % len(DTABLE), timeout=280, path_timeout=100, funcs=FUNCS))
    obs.append(Ob(name="rename_call_noparams", params=[("c%d" % i, "int") for i in range(6)],
                  pre=["all(0 <= x < 8 for x in (c0, c1, c2, c3, c4, c5))"], body="H.rename_noparams(c0, c1, c2, c3, c4, c5)",
                  witness=(2, 0, 1, 3, 4, 4), bounds="the same body template on an interface with zero parameters: __call__ body identical",
                  timeout=150, path_timeout=100, funcs=FUNCS))
    N = len(TABLE)
    Nq = len([t for t in TABLE if len(t[0]) <= 2])
    total = Nq if tier == "quick" else N
    chunks = 1 if tier == "quick" else 6
    for ch in range(chunks):
        lo, hi = total * ch // chunks, total * (ch + 1) // chunks
        tag = "" if chunks == 1 else "_%d" % ch
        w_fn = TABLE.index(((0, 1), 1)) if lo <= TABLE.index(((0, 1), 1)) < hi else lo
        w_ap = TABLE.index(((0, 1), 0)) if lo <= TABLE.index(((0, 1), 0)) < hi else lo
        for method in (0, 1):
            obs.append(Ob(name="carried_%s%s" % ("method" if method else "function", tag), params=[("c", "int")],
                          pre=["%d <= c < %d" % (lo, hi)], body="H.carried_fn(%d, c, {ACTIVE})" % method, witness=(w_fn,), kind="F",
                          bounds="def f(%sa, b=5) with a ReST docstring and every body of <= %d statements drawn from %d statement kinds + final in %r "
                          "(table entries %d..%d of %d, exhaustive)" % ("self, " if method else "", 2 if tier == "quick" else 3, len(STMTS), FINALS, lo, hi - 1, total),
                          timeout=280 if tier == "quick" else 1800, path_timeout=120, funcs=FUNCS))
        obs.append(Ob(name="carried_argparse%s" % tag, params=[("c", "int")], pre=["%d <= c < %d" % (lo, hi)],
                      body="H.carried_argparse(c, {ACTIVE})", witness=(w_ap,), kind="F",
                      bounds="argparse function with the same statement kinds interleaved with its add_argument calls; final `return argument_parser` or "
                      "`return argument_parser, c` (table entries %d..%d)" % (lo, hi - 1), timeout=280 if tier == "quick" else 1800, path_timeout=120, funcs=FUNCS))
    for sp in SPECIAL:
        for wr in (True, False):
            if tier == "quick" and not wr and sp != "self":
                continue
            obs.append(Ob(name="rename_call_%s_%s" % (sp, "ret" if wr else "noret"), params=[("c%d" % i, "int") for i in range(6)],
                          pre=["all(0 <= x < 8 for x in (c0, c1, c2, c3, c4, c5))"],
                          body="H.rename(c0, c1, c2, c3, c4, c5, {ACTIVE}, with_ret=%r, first=%r)" % (wr, sp), witness=(2, 0, 1, 3, 4, 4),
                          bounds="as rename_call with the assigned local literally named %r, on an interface %s a return entry (which emit.class_ "
                          "folds into the attributes)" % (sp, "with" if wr else "without"),
                          timeout=240 if tier == "quick" else 900, path_timeout=100, funcs=FUNCS))
    obs.append(Ob(name="rename_call", params=[("c%d" % i, "int") for i in range(6)], pre=["all(0 <= x < 8 for x in (c0, c1, c2, c3, c4, c5))"],
                  body="H.rename(c0, c1, c2, c3, c4, c5, {ACTIVE})", witness=(2, 0, 1, 3, 4, 4),
                  bounds="body template of 5 statements (assignment, call with a keyword argument, attribute access, nested def, return) whose 6 "
                  "identifiers are symbolic 1-char names a..h; parameter set {a, b}; emit.class_(emit_call=True)",
                  timeout=240 if tier == "quick" else 900, path_timeout=100, funcs=FUNCS))
    return obs
