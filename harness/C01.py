"""C01 - docstring round trip (ReST / numpydoc / Google): parse.docstring(emit.docstring(ir)) describes the same interface."""
from harness.rt import *  # noqa: F401,F403
from harness import gridrun
from harness.gridrun import grid_ob  # noqa: F401  (obligation bodies call H.grid_ob)
from harness.rt import mk_ob
from lib.domain import SHAPES

FUNCS = [
    "doctrans.emit.docstring", "doctrans.docstring_utils.emit_param_str", "doctrans.defaults_utils.set_default_doc",
    "doctrans.defaults_utils.extract_default", "doctrans.defaults_utils.needs_quoting", "doctrans.pure_utils.location_within",
    "doctrans.pure_utils.quote", "doctrans.pure_utils.unquote", "doctrans.emitter_utils.interpolate_defaults",
    "doctrans.docstring_parsers.parse_docstring", "doctrans.docstring_parsers._scan_phase_rest",
    "doctrans.docstring_parsers._scan_phase_numpydoc_and_google", "doctrans.docstring_parsers._parse_phase_rest",
    "doctrans.docstring_parsers._parse_phase_numpydoc_and_google", "doctrans.docstring_parsers._set_name_and_type",
    "doctrans.docstring_parsers._infer_default", "doctrans.parse.docstring",
]
ASSUMPTIONS = [
    "IR domain D: concrete shape catalogue lib/domain.py:SHAPES (0..3 params, optional return entry, optional kwargs), "
    "symbolic content only in the holes; word_wrap=False (wrapping is C18)",
    "prose compared modulo the appended default sentence and sentence termination (I1); None/'None'/NoneStr equivalent (I2); "
    "back-tick quoting of code defaults is presentation (I5)",
    "known-finding tolerances are applied per (kind, difference code, entry feature) only while listed open in known_findings.json",
]

QUICK = ["p0_kwargs", "p2_plain_then_noprose", "p1_optint_d", "p1_optbool_f", "p1_int", "p1_int_d", "p1_untyped_d", "p1_str_s", "p1_bool_b", "p1_optint_none", "p1_literal", "p2_d_then_plain",
         "p2_plain_then_d", "p1_ret", "ret_only", "p1_kwargs", "p0", "p1_code"]


def _sd_ir(vals=None):
    """IR for the style-detection query: summary, two parameter proses and the return prose are holes (sentinels or given values)"""
    from collections import OrderedDict

    from lib.styledetect import SENT

    v = list(vals) if vals else [SENT % i for i in range(4)]
    ir = {"name": None, "type": "static", "doc": v[0],
          "params": OrderedDict([("a", {"typ": "int", "doc": v[1], "default": 5}), ("b", {"typ": "List[str]", "doc": v[2]})]),
          "returns": OrderedDict([("return_type", {"typ": "bool", "doc": v[3]})])}
    return (ir, 4) if vals is None else ir


def _sd_run(style, maxlen):
    from lib import styledetect

    from doctrans import emit
    from doctrans.docstring_parsers import parse_docstring
    from doctrans.docstring_utils import TOKENS

    return styledetect.run(emit.docstring, parse_docstring, TOKENS, _sd_ir, style, maxlen=maxlen)


def _sd_replay(cex):
    from lib import styledetect

    from doctrans import emit
    from doctrans.docstring_parsers import parse_docstring

    return styledetect.replay(emit.docstring, parse_docstring, lambda vals: _sd_ir(vals), cex)


def obligations(tier, seed):
    from lib.ob import ZOb

    obs = []
    for style in ("rest", "numpydoc", "google"):
        obs.append(ZOb(name="style_detected_%s" % style, run=(lambda st=style: _sd_run(st, 12 if tier == "quick" else 40)), replay=_sd_replay,
                       bounds="direct z3 string query: the %s text emitted by the real emit.docstring for a two-parameter + return description whose "
                       "summary and three proses are holes (each <= %d chars over printable ASCII + newline, no hole containing a token by "
                       "itself) is detected as %s by the chain translated from parse_docstring's current AST" % (style, 12 if tier == "quick" else 40, style),
                       funcs=["doctrans.docstring_parsers.parse_docstring (style detection chain, AST -> z3)", "doctrans.emit.docstring (template)"]))
    shapes = QUICK if tier == "quick" else list(SHAPES)
    for kind in ("rest", "numpydoc", "google"):
        for sid in shapes:
            # thorough: every shape at the quick bounds, the QUICK shapes additionally one character / one integer step deeper
            obs.append(mk_ob("rt", "rt", kind, sid, {"emit_default_doc": True}, tier, funcs=FUNCS, pl=2, dr=2))
            if tier != "quick" and sid in QUICK:
                ob = mk_ob("rt", "rt", kind, sid, {"emit_default_doc": True}, tier, funcs=FUNCS, pl=3, dr=3, timeout=1200)
                ob.name += "_deep"
                obs.append(ob)
        for sid in (["p1_int_d", "p1_ret"] if tier == "quick" else QUICK):
            obs.append(mk_ob("rt", "rt", kind, sid, {"emit_default_doc": False}, tier, funcs=FUNCS, pl=2, dr=2))
    obs += gridrun.obligations('C01', tier, FUNCS)
    return obs
