"""
C17 - default values survive the trip through prose with value and type intact.

Real functions executed symbolically: defaults_utils.{extract_default,set_default_doc,needs_quoting},
pure_utils.{location_within,quote,unquote,count_iter_items}, emitter_utils.interpolate_defaults.
"""
from lib import prelude  # noqa: F401
from lib.ob import Ob, ZOb
from lib.domain import fixlen

from doctrans.defaults_utils import extract_default, set_default_doc
from doctrans.emitter_utils import interpolate_defaults

FUNCS = [
    "doctrans.defaults_utils.extract_default",
    "doctrans.defaults_utils.set_default_doc",
    "doctrans.defaults_utils.needs_quoting",
    "doctrans.pure_utils.location_within",
    "doctrans.pure_utils.quote",
    "doctrans.pure_utils.unquote",
    "doctrans.emitter_utils.interpolate_defaults",
]
ASSUMPTIONS = [
    "the default sentence is the last sentence of the prose (that is where set_default_doc writes it); prose after the "
    "default sentence is outside the claim (the repository's own test pins the glued result 'Have thisIn the middle?')",
    "value text / prose beyond the stated hole lengths and alphabets is outside the claim; ASCII only",
    "floats come from a finite pool of renderings (CrossHair realises a symbolic str at float())",
]

PHRASES = ("Defaults to ", "defaults to ", "Default value is ", "Default: ", "defaults to\n", "Defaults to\n", "Default:")
ANNOUNCE = ("defaults to ", "defaults to\n", "default value is ", "default:")
DIG = "0123456789"


def is_int_rendering(s):
    """s in -?(0|[1-9][0-9]*)   (what str(int) produces)"""
    if len(s) == 0:
        return False
    body = s[1:] if s[0] == "-" else s
    if len(body) == 0:
        return False
    if not all(c in DIG for c in body):
        return False
    return body == "0" or body[0] != "0"


QUOTES = "'" + '"'


def is_q(c):
    return c in QUOTES


def no_announce(s):
    t = s.lower()
    return not any(a in t for a in ANNOUNCE)


def prose_ok(p, alphabet):
    return (
        len(p) >= 1
        and all(c in alphabet for c in p)
        and p == p.strip()
    )


# ------------------------------------------------------------------ bodies
def int_text(phrase_idx, tail, typ, s):
    """text 'x. <phrase><s><tail>' must yield the int that s renders, for both removal modes"""
    s = fixlen(s)
    line = "x. " + PHRASES[phrase_idx] + s + tail
    want = int(s)
    doc, d = extract_default(line, typ=typ, emit_default_doc=True)
    if typ == "float":
        ok = type(d) is float and d == want
    else:
        ok = type(d) is int and d == want
    if not (ok and doc == line):
        return False
    doc2, d2 = extract_default(line, typ=typ, emit_default_doc=False)
    return type(d2) is type(d) and d2 == d and doc2 == "x."


def float_text(phrase_idx, tail, i, neg):
    s = ("-" if neg else "") + FLOAT_POOL[i]
    line = "x. " + PHRASES[phrase_idx] + s + tail
    want = float(s)
    doc, d = extract_default(line, emit_default_doc=True)
    if not (type(d) is float and d == want and doc == line):
        return False
    doc2, d2 = extract_default(line, emit_default_doc=False)
    return type(d2) is float and d2 == want and doc2 == "x."


FLOAT_POOL = ("0.0", "0.5", "2.5", "1e-07", "1e+16", "0.001", "10.25", "3.0")


def _norm(p):
    return p if p[-1] in ".," else p + "."


def codec_int(typ, p, d):
    """set_default_doc then interpolate_defaults: int default, symbolic prose"""
    p = fixlen(p)
    _, q = set_default_doc(("a", {"doc": p, "default": d, **({"typ": typ} if typ else {})}))
    text = q["doc"]
    _, r = interpolate_defaults(("a", {"doc": text, **({"typ": typ} if typ else {})}), emit_default_doc=True)
    if not (type(r.get("default")) is int and r["default"] == d and r["doc"] == text):
        return False
    _, r2 = interpolate_defaults(("a", {"doc": text, **({"typ": typ} if typ else {})}), emit_default_doc=False)
    return type(r2.get("default")) is int and r2["default"] == d and r2["doc"] == _norm(p)


def wrapped_break(kind, i, b):
    """the default sentence wrapped exactly between 'Defaults to' and the value (what fill() produces at an unlucky width)"""
    vals = {0: ("5", 5), 1: ("-5", -5), 2: ("0", 0), 3: ("True", True), 4: ("False", False), 5: ("0.5", 0.5), 6: ("mnist", "mnist")}
    text, want = vals[i]
    sep = ("\n", "\n    ")[b]
    line = "the value. Defaults to" + sep + text
    doc, d = extract_default(line, emit_default_doc=True)
    if isinstance(want, str):
        return type(d) is str and d.strip() == want
    return type(d) is type(want) and d == want


def codec_bool(typ, p, b):
    p = fixlen(p)
    _, q = set_default_doc(("a", {"doc": p, "default": b, **({"typ": typ} if typ else {})}))
    text = q["doc"]
    _, r = interpolate_defaults(("a", {"doc": text, **({"typ": typ} if typ else {})}), emit_default_doc=True)
    if not (r.get("default") is b and r["doc"] == text):
        return False
    _, r2 = interpolate_defaults(("a", {"doc": text, **({"typ": typ} if typ else {})}), emit_default_doc=False)
    return r2.get("default") is b and r2["doc"] == _norm(p)


def codec_str(typ, p, s):
    """str default (typ None: written bare; typ str/Optional[str]: written quoted)"""
    s = fixlen(s)
    _, q = set_default_doc(("a", {"doc": p, "default": s, **({"typ": typ} if typ else {})}))
    text = q["doc"]
    _, r = interpolate_defaults(("a", {"doc": text, **({"typ": typ} if typ else {})}), emit_default_doc=True)
    if not (type(r.get("default")) is str and r["default"] == s and r["doc"] == text):
        return False
    _, r2 = interpolate_defaults(("a", {"doc": text, **({"typ": typ} if typ else {})}), emit_default_doc=False)
    return type(r2.get("default")) is str and r2["default"] == s and r2["doc"] == _norm(p)


CODE_POOL = ("```(np.empty(0), np.empty(0))```", "```[]```", "```foo.bar()```", "```(None)```", "```{'a': 1}```",
             "```(np.ones(3) * 2).astype(int)```", "```[1, 2][0]```")


def codec_code(i, p):
    """code-quoted default: comes back as the same expression text (back-ticks are presentation)"""
    p = fixlen(p)
    d = CODE_POOL[i]
    _, q = set_default_doc(("a", {"doc": p, "default": d}))
    text = q["doc"]
    _, r = interpolate_defaults(("a", {"doc": text}), emit_default_doc=True)
    if i == 3:  # NoneStr: "Defaults to None"
        ok = r.get("default") in ("None", None, d) and r["doc"] == text
    else:
        ok = r.get("default") == d.strip("`") and r["doc"] == text
    if not ok:
        return False
    _, r2 = interpolate_defaults(("a", {"doc": text}), emit_default_doc=False)
    return r2.get("default") == r.get("default") and r2["doc"] == _norm(p)


WORDS = ("default", "Default", "defaults", "Defaults", "by default", "DEFAULT")


def untouched(w, pre_, post_):
    """prose that contains a 'default' word without announcing a value is never altered"""
    doc = fixlen(pre_) + WORDS[w] + fixlen(post_)
    d1, v1 = extract_default(doc, emit_default_doc=True)
    d2, v2 = extract_default(doc, emit_default_doc=False)
    _, q = set_default_doc(("a", {"doc": doc}), emit_default_doc=True)
    _, q2 = set_default_doc(("a", {"doc": doc}), emit_default_doc=False)
    return v1 is None and v2 is None and d1 == doc and d2 == doc and q["doc"] == doc and q2["doc"] == doc


def word_then_default(w, d):
    """prose containing a 'default' word AND carrying a default: the value must still be written and read back"""
    doc = "uses the " + WORDS[w] + " set"
    _, q = set_default_doc(("a", {"doc": doc, "default": d}))
    _, r = interpolate_defaults(("a", {"doc": q["doc"]}), emit_default_doc=True)
    return type(r.get("default")) is int and r["default"] == d


PROSE_A = "ab .,:()`0-"


SELFTEST_ALPHA = "aZ 09" + chr(9) + chr(10) + chr(13) + chr(28) + chr(11) + "-_" + chr(127) + "@[`{"


def engine_selftest(op, s):
    """trusted-base check: the ASCII fast paths of lib/chfast.py agree with CPython (the symbolic result, realised under the path's
    model, equals the CPython result on the realised input)"""
    from lib.chutil import realize

    s = fixlen(s)
    if op == 0:
        r = s.casefold()
    elif op == 1:
        r = s.lower()
    elif op == 2:
        r = s.upper()
    elif op == 3:
        r = s.isspace()
    elif op == 4:
        r = s.isdigit()
    elif op == 5:
        r = s.isdecimal()
    else:
        r = s.splitlines()
    c = realize(s)
    want = (c.casefold(), c.lower(), c.upper(), c.isspace(), c.isdigit(), c.isdecimal(), c.splitlines())[op]
    return realize(r) == want


# ------------------------------------------------------------------ the table: realistic prose x every kind of value x every phrase
T_PROSE = ["the learning rate", "dataset name, e.g. mnist", "number of epochs (at least 1)", "scale factor 0.5 applied twice", "see `foo` for details",
           "first. second", "ends with period.", "ends with comma,", "a: b", "size in [0, 1]", "x", "Name of the thing - hyphenated", "value; see below"]
T_VALUES = [("5", 5, (None, "int", "Optional[int]")), ("-5", -5, (None, "int")), ("0", 0, (None, "int")), ("12", 12, (None, "int")),
            ("100", 100, (None, "int")), ("5", 5.0, ("float",)), ("0.5", 0.5, (None, "float")), ("-0.5", -0.5, (None, "float")),
            ("1e-07", 1e-07, (None, "float")), ("3.0", 3.0, (None, "float")), ("10.25", 10.25, (None, "float")),
            ("True", True, (None, "bool")), ("False", False, (None, "bool")), ("None", None, (None, "Optional[int]", "int", "str")),
            ('""', "", ("str", "Optional[str]", "Union[str, int]", None)), ("''", "", ("str", "Optional[str]")),
            ('"mnist"', "mnist", ("str", "Optional[str]")), ("'mnist'", "mnist", ("str",)), ('"a b"', "a b", ("str",)), ("mnist", "mnist", (None,)),
            ("```[]```", "[]", (None, "List[int]")), ("```(np.empty(0), np.empty(0))```", "(np.empty(0), np.empty(0))", (None,)),
            ("```{'a': 1}```", "{'a': 1}", (None,)), ("(1, 2)", "(1, 2)", (None,)), ("dict(a=1).items()", "dict(a=1).items()", (None,)),
            ("(1, 2).count(1)", "(1, 2).count(1)", (None,)), ("[1, 2]", "[1, 2]", (None,))]
T_TAILS = ("", ".", ". ")
T_CELLS = [(v, ph) for v in range(len(T_VALUES)) for ph in range(len(PHRASES))]


def _t_same(got, want):
    from doctrans.ast_utils import NoneStr

    if want is None:
        return got is None or (isinstance(got, str) and got in ("None", NoneStr))
    if isinstance(want, str):
        return isinstance(got, str) and (got.strip("`") == want if want else got == want)
    return type(got) is type(want) and got == want


def table_cell(c, active):
    """cell c = (value, phrase): for every prose of the pool, every declared type the value admits, every tail and both removal modes,
    `<prose>. <phrase><value><tail>` gives the value back with its type, the text unchanged (removal off) or the prose alone (on)"""
    from lib.chutil import realize, untraced

    c = realize(c)
    with untraced():
        vi, pi = T_CELLS[c]
        text, want, typs = T_VALUES[vi]
        bracketed = text[-1] in ")]}`"
        for p in T_PROSE:
            for typ in typs:
                for tail in T_TAILS:
                    line = _norm(p) + " " + PHRASES[pi] + text + tail
                    for rm in (False, True):
                        _, r = interpolate_defaults(("a", {"doc": line, **({"typ": typ} if typ else {})}), emit_default_doc=not rm)
                        got = r.get("default")
                        if not _t_same(got, want):
                            # KF-C17-bracket-tail-dot: exactly the value text (back-ticks included) followed by the full stop
                            # ... or, for a value that ends in ')' without starting with '(', the value without its last ')' (the
                            # "strip a trailing ')." step then removes one character too many)
                            if not ("KF-C17-bracket-tail-dot" in active and bracketed and tail[:1] == "." and isinstance(got, str)
                                    and (got == text.lstrip("`") + "." or (text.endswith(")") and not text.startswith("(") and got == text[:-1]))):
                                return False
                        if r["doc"] != (_norm(p) if rm else line):
                            return False
        return True


def obligations(tier, seed):
    obs = []
    obs.append(Ob(name="table", params=[("c", "int")], pre=["0 <= c < %d" % len(T_CELLS)], body="H.table_cell(c, {ACTIVE})",
                  witness=(0,), kind="F",
                  bounds="%d cells (value x phrase, table-indexed): %d values of every kind (ints, floats, bools, None, quoted / bare strs, back-tick "
                  "and bare bracketed expressions) x the 7 phrase forms; inside a cell, concretely: %d realistic prose texts x every declared type "
                  "the value admits x tails %r x removal on/off" % (len(T_CELLS), len(T_VALUES), len(T_PROSE), T_TAILS),
                  timeout=300, path_timeout=100, funcs=FUNCS))
    for op, nm_ in enumerate(("casefold", "lower", "upper", "isspace", "isdigit", "isdecimal", "splitlines")):
        obs.append(Ob(name="engine_selftest_%s" % nm_, params=[("s", "str")], pre=["len(s) <= 2", "all(c in H.SELFTEST_ALPHA for c in s)"],
                      body="H.engine_selftest(%d, s)" % op, witness=("Z ",),
                      bounds="trusted base: lib/chfast.py's %s on every string of length <= 2 over a representative ASCII alphabet (letters at the case boundaries, digits, every ASCII white-space / line-break character, punctuation next to the letter ranges) agrees with CPython" % nm_,
                      timeout=100, path_timeout=50, funcs=["lib/chfast.py (engine shim)"]))
    n = 3 if tier == "quick" else 4
    pl = 2 if tier == "quick" else 3
    phr = range(len(PHRASES))
    for pi in phr:
        for tail in ("", "."):
            for typ in (None, "int") if tier == "quick" else (None, "int", "float"):
                if tier == "quick" and (pi, tail, typ) not in (
                    (0, "", None), (0, ".", "int"), (1, ".", None), (2, "", None), (3, ".", None), (3, "", "int"),
                    (4, "", None), (5, ".", None), (6, "", None),
                ):
                    continue
                obs.append(
                    Ob(
                        name="int_text_p%d_%s_%s" % (pi, "dot" if tail else "end", typ),
                        params=[("s", "str")],
                        pre=["len(s) <= %d" % ((3 if pi == 2 else n) if typ is None else 2), "H.is_int_rendering(s)"],
                        body="H.int_text(%d, %r, %r, s)" % (pi, tail, typ),
                        witness=("7",),
                        bounds="value text s in -?(0|[1-9][0-9]*), len(s) <= %d, phrase %r, tail %r, declared type %r; both removal modes"
                        % ((3 if pi == 2 else n) if typ is None else 2, PHRASES[pi], tail, typ),
                        timeout=120 if tier == "quick" else 600,
                        path_timeout=60,
                        kf=[("KF-C17-negint", "s.startswith('-') and %r is None" % (typ,))],
                    )
                )
    obs.append(
        Ob(
            name="float_text",
            params=[("ph", "int"), ("dot", "bool"), ("i", "int"), ("neg", "bool")],
            pre=["0 <= ph < %d" % len(PHRASES), "0 <= i < %d" % len(FLOAT_POOL)],
            body="H.float_text(ph, '.' if dot else '', i, neg)",
            witness=(0, False, 1, False),
            bounds="float renderings from pool %r, signed, all 4 phrases, tail in {'', '.'}; finite" % (FLOAT_POOL,),
            kind="F",
            timeout=120,
        )
    )
    dr = 2 if tier == "quick" else 4
    for typ in (None, "int", "Optional[int]"):
        obs.append(
            Ob(
                name="codec_int_%s" % typ,
                params=[("p", "str"), ("d", "int")],
                pre=["len(p) <= %d" % pl, "H.prose_ok(p, %r)" % PROSE_A, "-%d <= d <= %d" % (dr, dr)],
                body="H.codec_int(%r, p, d)" % (typ,),
                witness=("a", 2),
                bounds="prose p over %r, 1 <= len <= %d, stripped (symbolic); int default d in [-%d,%d] (solver-enumerated: "
                "str.format realises ints); declared type %r" % (PROSE_A, pl, dr, dr, typ),
                kind="F",
                timeout=240 if tier == "quick" else 900,
                path_timeout=60,
                kf=[("KF-C17-negint", "d < 0 and %r != 'int'" % (typ,))],
            )
        )
    for typ in (None, "bool"):
        obs.append(
            Ob(
                name="codec_bool_%s" % typ,
                params=[("p", "str"), ("b", "bool")],
                pre=["len(p) <= %d" % pl, "H.prose_ok(p, %r)" % PROSE_A],
                body="H.codec_bool(%r, p, b)" % (typ,),
                witness=("a", True),
                bounds="prose p over %r, len <= %d (symbolic); bool default; declared type %r" % (PROSE_A, pl, typ),
                timeout=150 if tier == "quick" else 600,
                path_timeout=60,
            )
        )
    SA = "ab '\"."
    for typ in (None, "str", "Optional[str]"):
        obs.append(
            Ob(
                name="codec_str_%s" % typ,
                params=[("s", "str")],
                pre=["1 <= len(s) <= 2", "all(c in %r for c in s)" % SA, "s == s.strip()"],
                body="H.codec_str(%r, 'a b', s)" % (typ,),
                witness=("ab",),
                bounds="str default s over %r, 1 <= len <= 2, stripped; prose concrete; declared type %r" % (SA, typ),
                kind="F" if typ else "S",
                timeout=150 if tier == "quick" else 600,
                path_timeout=60,
                kf=[("KF-C17-strdot", "'.' in s"), ("KF-C17-strquote", "H.is_q(s[0]) or H.is_q(s[-1])")],
            )
        )
    obs.append(
        Ob(
            name="codec_code",
            params=[("i", "int"), ("p", "str")],
            pre=["0 <= i < %d" % len(CODE_POOL), "len(p) <= %d" % pl, "H.prose_ok(p, %r)" % PROSE_A],
            body="H.codec_code(i, p)",
            witness=(0, "a"),
            bounds="code-quoted defaults from pool %r; prose symbolic len <= %d" % (CODE_POOL, pl),
            timeout=150 if tier == "quick" else 600,
            path_timeout=60,

        )
    )
    HA = "a to:."
    bl = 2 if tier == "quick" else 4
    for w in range(len(WORDS)):
        obs.append(
            Ob(
                name="untouched_%d" % w,
                params=[("a", "str"), ("b", "str")],
                pre=[
                    "len(a) <= 2 and len(b) <= %d" % bl,
                    "all(c in %r for c in a) and all(c in %r for c in b)" % (HA, HA),
                    "H.no_announce(a + H.WORDS[%d] + b)" % w,
                ],
                body="H.untouched(%d, a, b)" % w,
                witness=("a ", " a"),
                bounds="prose = a + %r + b, holes a (len<=2), b (len<=%d) over %r, no announcement phrase formed"
                % (WORDS[w], bl, HA),
                timeout=240 if tier == "quick" else 900,
                path_timeout=60,
            )
        )
    obs.append(
        Ob(
            name="wrapped_break", params=[("i", "int"), ("b", "bool")], pre=["0 <= i <= 6"], body="H.wrapped_break(0, i, b)",
            witness=(0, False), kind="F",
            bounds="'Defaults to' followed by a line break (with or without continuation indent) and then the value, for 7 values of every kind",
            timeout=100,
        )
    )
    obs.append(
        Ob(
            name="word_then_default",
            params=[("w", "int"), ("d", "int")],
            pre=["0 <= w < %d" % len(WORDS), "0 <= d <= 3"],
            body="H.word_then_default(w, d)",
            witness=(0, 2),
            bounds="prose 'uses the WORD set' for WORD in %r with an int default in [0,3]" % (WORDS,),
            kind="F",
            timeout=60,
            kf=[("KF-C17-hasdefaults", "'efaults' in H.WORDS[w]")],
        )
    )
    from lib import pyladder

    obs.append(ZOb(name="ladder_lemma_unbounded", run=lambda: pyladder.run_lemma(extract_default),
                   replay=lambda cex: pyladder.replay(extract_default, cex),
                   bounds="direct z3 query over strings of ANY length: the coercion ladder of extract_default translated from its current AST; "
                   "languages str(int) = -?(0|[1-9][0-9]*), repr(float), True|False; ASCII",
                   funcs=["doctrans.defaults_utils.extract_default (coercion ladder, AST -> z3)"]))
    return obs
