"""A tiny importable input mapping for `gen` (C20's exists-guard obligations need gen to actually run; gen reads sources via inspect)."""


class Foo(object):
    """
    The amazing Foo

    :cvar a: An a
    :cvar b: A b
    """

    a: int = 5
    b: int = 16


input_map = {"Foo": Foo}
