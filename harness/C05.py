"""C05 - any-to-any convertibility: convert an IR through a chain of representation kinds, parse the last one, compare with the start."""
from harness.rt import *  # noqa: F401,F403
from harness import gridrun
from harness.gridrun import grid_ob  # noqa: F401  (obligation bodies call H.grid_ob)
from harness.rt import mk_ob
from harness import C01, C02, C03, C04

FUNCS = sorted(set(C01.FUNCS + C02.FUNCS + C03.FUNCS + C04.FUNCS))
ASSUMPTIONS = [
    "chains are executed directly: ir -> emit k1 -> parse k1 -> emit k2 -> parse k2 (-> k3): the last IR is judged against the first "
    "under the union of the documented normalisations of the kinds on the chain (class / argparse zero values, Optional <-> not required)",
    "chains through argparse use only shapes argparse can express; in-memory (inspect) parsing is outside the claim",
    "quick: a covering set of ordered pairs; thorough: all 42 ordered pairs on a small shape set plus a covering set of length-3 chains",
]
PAIRS_Q = [("rest", "class"), ("class", "function"), ("function", "argparse"), ("argparse", "google"), ("numpydoc", "method"),
           ("google", "class"), ("class", "argparse"), ("method", "rest"), ("argparse", "class"), ("function", "numpydoc"),
           ("class", "rest"), ("rest", "function")]
SH_Q = ["p1_int_d", "p1_str_s", "p2_plain_then_d", "p2_d_then_optd", "p1_optbool_f", "p0_kwargs"]
KINDS7 = ("rest", "numpydoc", "google", "class", "function", "method", "argparse")


def obligations(tier, seed):
    obs = []
    opts = {"emit_default_doc": True}
    if tier == "quick":
        for i, pr in enumerate(PAIRS_Q):
            for j, sid in enumerate(SH_Q):
                if (i + j) % 3 == 0 or (sid == "p2_plain_then_d" and i % 4 == 1):
                    obs.append(mk_ob("chain", "chain", pr, sid, opts, tier, funcs=FUNCS, timeout=240, pl=1, dr=1))
        obs.append(mk_ob("chain", "chain", ("class", "function", "argparse"), "p1_int_d", opts, tier, funcs=FUNCS, timeout=240, pl=1, dr=1))
        obs.append(mk_ob("chain", "chain", ("rest", "argparse", "class"), "p1_str_s", opts, tier, funcs=FUNCS, timeout=240, pl=1, dr=1))
    else:
        for a in KINDS7:
            for b in KINDS7:
                if a != b:
                    for k_, sid in enumerate(("p1_int_d", "p1_str_s", "p2_plain_then_d", "p1_bool_b", "p1_optint_none", "p1_kwargs", "p3_mixed")):
                        if k_ >= 3 and (KINDS7.index(a) + KINDS7.index(b) + k_) % 2:
                            continue  # every pair with the three core shapes, every second pair with each of the other four
                        obs.append(mk_ob("chain", "chain", (a, b), sid, opts, tier, funcs=FUNCS, pl=1, dr=2, timeout=600))
        n = 0
        for a in KINDS7:
            for b in KINDS7:
                for c in KINDS7:
                    if a != b and b != c:
                        n += 1
                        if n % 5 == 0:
                            obs.append(mk_ob("chain", "chain", (a, b, c), ("p1_int_d", "p1_str_s", "p2_plain_then_d")[n % 3], opts, tier, funcs=FUNCS,
                                             pl=1, dr=2, timeout=600))
    obs += gridrun.obligations('C05', tier, FUNCS)
    return obs
