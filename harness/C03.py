"""C03 - function / method round trip: parse.function(emit.function(ir, ...)) describes the same interface."""
from harness.rt import *  # noqa: F401,F403
from harness import gridrun
from harness.gridrun import grid_ob  # noqa: F401  (obligation bodies call H.grid_ob)
from harness.rt import mk_ob
from lib.domain import SHAPES

FUNCS = [
    "doctrans.emit.function", "doctrans.emitter_utils.to_docstring", "doctrans.ast_utils.set_arg", "doctrans.ast_utils.set_value",
    "doctrans.parse.function", "doctrans.ast_utils.func_arg2param", "doctrans.ast_utils.get_function_type",
    "doctrans.parser_utils.ir_merge", "doctrans.parser_utils._interpolate_return", "doctrans.docstring_parsers.parse_docstring",
    "doctrans.docstring_parsers._set_name_and_type", "doctrans.docstring_parsers._infer_default",
]
ASSUMPTIONS = [
    "IR domain D (lib/domain.py:SHAPES); FunctionDef handed from emit.function to parse.function as an object ((S)); "
    "(F) obligations pass through ast.unparse + ast.parse",
    "option grid: function kind {static,self,cls} x inline_types x emit_as_kwonlyargs x indent_level 0..2 x emit_default_doc "
    "(quick: covering subset; thorough: full grid on a reduced shape set)",
]
QUICK = ["p1_ret_none", "p0_kwargs", "p1_noprose_kwargs", "p1_optint_d", "p1_optbool_f", "p1_int", "p1_int_d", "p1_str_s", "p1_bool_b", "p1_optint_none", "p2_d_then_plain", "p2_plain_then_d", "p1_ret",
         "p1_ret_d", "ret_only", "p1_kwargs", "p0", "p3_mixed", "p1_literal"]
GRID_Q = [
    ("function", {"inline_types": True, "kwonly": False, "indent_level": 1, "emit_default_doc": True}),
    ("method", {"inline_types": False, "kwonly": True, "indent_level": 2, "emit_default_doc": True}),
    ("method", {"inline_types": True, "kwonly": True, "indent_level": 0, "emit_default_doc": False, "ftype": "cls"}),
    ("function", {"inline_types": False, "kwonly": False, "indent_level": 2, "emit_default_doc": False}),
]


def rt_order(kind, opts, active, p0, p1, p2):
    """round trip of a description with several prose-less parameters while every set iterates in a solver-chosen order
    (string hashing is randomised per process, so every order is a legal environment): the parameter order must not depend on it"""
    from harness.rt import judge
    from lib import ndorder
    from lib.domain import mk_ir, roundtrip
    import harness.C12 as C12

    ir = mk_ir("p3_two_noprose", p="the a")
    undo = ndorder.install(C12.MODS)
    try:
        ndorder.PICKS[0] = (p0, p1, p2)
        got = roundtrip(ir, kind, opts)
    finally:
        ndorder.PICKS[0] = ()
        undo()
    return judge(got, ir, kind, opts, active)


def obligations(tier, seed):
    obs = []
    if tier == "quick":
        for i, sid in enumerate(QUICK):
            for j, (kind, opts) in enumerate(GRID_Q):
                if (i + j) % 2 == 0 or sid in ("p2_plain_then_d", "ret_only", "p1_kwargs", "p0_kwargs", "p1_noprose_kwargs"):
                    obs.append(mk_ob("rt", "rt", kind, sid, opts, tier, funcs=FUNCS))
        for kind, o in (("method", dict(GRID_Q[1][1], ftype_from_ir=True)), ("method", dict(GRID_Q[2][1], ftype_from_ir=True)),
                        ("function", dict(GRID_Q[0][1], ftype_from_ir=True))):
            obs.append(mk_ob("rt", "rt", kind, "p1_int_d", o, tier, funcs=FUNCS))
        from lib.ob import Ob as _Ob

        for kind, o in (GRID_Q[0], GRID_Q[2]):  # inline types: a prose-less parameter keeps its type in the signature
            obs.append(_Ob(name="set_order_%s" % kind, params=[("p0", "int"), ("p1", "int"), ("p2", "int")],
                           pre=["0 <= p0 <= 2 and 0 <= p1 <= 1 and p2 == 0"], body="H.rt_order(%r, %r, {ACTIVE}, p0, p1, p2)" % (kind, o),
                           witness=(0, 0, 0), bounds="shape p3_two_noprose (one documented + three prose-less parameters), %s, options %r; "
                           "iteration order of every name set chosen by the solver (lib/ndorder)" % (kind, o), timeout=200, path_timeout=100,
                           funcs=FUNCS))
        for kind, o in GRID_Q[2:]:
            ob = mk_ob("pair", "rt", kind, "p1_bool_b", o, tier, funcs=FUNCS)
            ob.name = "pair_%s_bool_then_float" % kind
            ob.body = ob.body.replace("H.rt(%r, 'p1_bool_b', " % kind, "H.pair(%r, 'p1_bool_b', 'p1_optfloat_z', " % kind).replace("b=b", "p='the a', b=b")
            ob.bounds = "two round trips in one process: bool default (symbolic) then Optional[float] = 0.0; " + ob.bounds
            obs.append(ob)
        obs.append(mk_ob("text", "rt", "function", "p1_int_d", GRID_Q[0][1], tier, extra=", text=True", kind="F", fixed={"p": "the a b"}, str_alpha="STR_T", funcs=FUNCS))
        obs.append(mk_ob("text", "rt", "method", "p1_str_s", GRID_Q[1][1], tier, extra=", text=True", kind="F", fixed={"p": "the a b"}, str_alpha="STR_T", funcs=FUNCS))
    else:
        grid = []
        for kind, ft in (("function", None), ("method", "self"), ("method", "cls")):
            for it in (True, False):
                for kw in (True, False):
                    for il in (0, 1, 2):
                        for dd in (True, False):
                            o = {"inline_types": it, "kwonly": kw, "indent_level": il, "emit_default_doc": dd}
                            if ft:
                                o["ftype"] = ft
                            grid.append((kind, o))
        for sid in SHAPES:
            for n, (kind, opts) in enumerate(grid):
                if (sid in ("p1_int_d", "p2_plain_then_d", "p1_kwargs", "p1_ret_d") and n % 2 == 0) or n % 12 == (sum(map(ord, sid)) % 12):
                    obs.append(mk_ob("rt", "rt", kind, sid, opts, tier, funcs=FUNCS, pl=2, dr=2, timeout=600))
        for sid in ("p1_int_d", "p1_str_s", "p1_kwargs", "p2_plain_then_d"):
            obs.append(mk_ob("text", "rt", "function", sid, GRID_Q[0][1], tier, extra=", text=True", kind="F", fixed={"p": "the a b"}, str_alpha="STR_T", funcs=FUNCS))
    obs += gridrun.obligations('C03', tier, FUNCS)
    return obs
