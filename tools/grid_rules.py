"""
Attribution of failing grid rows to known findings (by features of the row; loose on purpose - exactness comes from the outcome
digest stored per row, the id is a label).  First match wins.  Reviewed by hand: every rule names a representative that was inspected.
"""
from lib import grid
from lib.domain import ABSENT
from doctrans.ast_utils import NoneStr

FN = ("function", "method")
DOCS = ("rest", "numpydoc", "google")


def entries(rid):
    _, params, ret = grid.ROWS[rid]
    es = [dict(name=n, typ=t, doc=p, default=d, ret=False) for n, t, p, d in params]
    if ret:
        es.append(dict(name="return_type", typ=ret[0], doc=ret[1], default=ret[2], ret=True))
    return es


def is_code(d):
    return isinstance(d, str) and d.startswith("```") and d != NoneStr


def rule(key, dig, desc, kinds):
    cfg, rid = key.split("|")
    es = entries(rid)
    ps = [e for e in es if not e["ret"]]
    anyk = lambda *ks: any(k in kinds for k in ks)  # noqa: E731
    # g1_11_4: prose that begins with the word Optional makes the parser wrap the declared type in Optional[...] (a heuristic of
    # _set_name_and_type meant for untyped docstrings; it also fires when the type is declared): the type changes, and with every
    # further emit/parse cycle of a non-Optional type nothing else does
    if any((e["doc"] or "").startswith(("Optional", "(Optional)")) and (anyk(*FN) or not (e["typ"] or "").startswith("Optional[")) for e in es):
        return "KF-RT-optional-prose-wraps-type"
    # g1_49_1: a str default that contains a full stop ('x.y', '.bak') is cut at the stop when read back from the default sentence
    # (same scan as KF-C17-strdot); for emit.function the cut text is an unterminated string literal
    if any(isinstance(e["default"], str) and not is_code(e["default"]) and e["default"] != NoneStr and "." in e["default"] for e in es):
        return "KF-RT-str-default-dot"
    # g3_11_6_0: a return entry that has prose but no type: class annotates it `object`, google reads the prose line as the type,
    # numpydoc writes the prose where the type belongs and reads 'Returns' / '-------' back as parameter names
    if any(e["ret"] and e["typ"] is None for e in es) and anyk("class", "numpydoc", "google"):
        return "KF-RT-ret-untyped"
    # g3_11_5_0: a return entry that has a type but no prose: numpydoc's parser indexes the missing prose line (IndexError), google reads
    # the type line as prose, emit.function with inline_types=False has no ':returns:' line to hang the ':rtype:' on
    if any(e["ret"] and not e["doc"] for e in es) and anyk("numpydoc", "google", *FN):
        return "KF-RT-ret-noprose"
    # class_F|g1_28_1: Optional[str] = '' is emitted as `a: Optional[str] = None` by emit.class_ (the falsy default is dropped)
    if anyk("class") and any(e["default"] == "" and isinstance(e["default"], str) and e["typ"] not in ("str", None) for e in es):
        return "KF-RT-class-empty-str-to-none"
    # g1_2_1: untyped parameter with a str default: 'Defaults to x' is written unquoted and literal_eval('x') raises on the way back
    if any(e["typ"] is None and isinstance(e["default"], str) and e["default"] != ABSENT for e in ps) and (anyk("rest", *FN)):
        return "KF-RT-untyped-str-default-unquoted"
    # g1_0_1 (class): an untyped attribute is annotated `object`, which comes back as its type
    if anyk("class") and any(e["typ"] is None for e in ps):
        return "KF-RT-class-untyped-object"
    # g1_0_0 (rest): a parameter with neither type nor prose (nor default text) is not written at all
    if anyk(*DOCS) and any(e["typ"] is None and not e["doc"] for e in ps):
        return "KF-RT-bare-param-dropped"
    # g3_0_0_2 (function): a **kwargs entry without prose is not listed in the docstring and is dropped by parse.function
    if anyk(*FN) and any(e["name"].endswith("kwargs") and not e["doc"] for e in ps):
        return "KF-RT-fn-noprose-kwargs-dropped"
    # g1_14_0 (function, inline_types=False): a parameter without prose is not listed in the docstring, so its type has nowhere to go
    if anyk(*FN) and "inline_types" in cfg_opts(cfg) and any(not e["doc"] for e in ps):
        return "KF-RT-noprose-type-not-inline"
    # g1_33_1 (argparse): List[str] with the code default ['a'] is emitted as default='a'
    if anyk("argparse") and any((e["typ"] or "").startswith("List[") and is_code(e["default"]) for e in ps):
        return "KF-RT-argparse-list-default"
    # g1_14_1 (argparse): bool without default is emitted without required=True and read back as Optional[bool]
    if anyk("argparse") and any(e["typ"] == "bool" and e["default"] == ABSENT for e in ps):
        return "KF-RT-argparse-bool-optional"
    # g2_10_21 (argparse): after an option with a default, a later Optional[...] option without default acquires the default None
    if anyk("argparse") and len(ps) >= 2 and any((e["typ"] or "").startswith("Optional[") and e["default"] == ABSENT for e in ps[1:]):
        return "KF-RT-argparse-force-default"
    # stab_function_F|g1_0_0: an untyped parameter without default comes back from parse.function with 'typ': None, and the next
    # emission builds an annotation out of None (cannot even be unparsed)
    if cfg.startswith("stab_") and anyk(*FN) and any(e["typ"] is None and e["default"] == ABSENT for e in ps):
        return "KF-RT-fn-untyped-typ-none"
    # stab_google|g4_1_0: a google docstring with only a Returns section is read as prose
    if anyk("google") and not ps and any(e["ret"] for e in es):
        return "KF-RT-google-retonly"
    # numpydoc_T|g5_1_5_0: a default without prose is not written (KF-RT-noprose-default); numpydoc/google then force the zero value
    # on the entry because an earlier parameter had a default (KF-RT-np-force-default): True comes back as False
    if anyk("numpydoc", "google") and any(not e["doc"] and e["default"] != ABSENT and any(p["default"] != ABSENT for p in ps[:i])
                                           for i, e in enumerate(ps)):
        return "KF-RT-np-force-default"
    if cfg.startswith("chain_"):
        # chain_A|g3_13_1_0 (class -> function): the class hop replaces the None default of a scalar-typed parameter by '' / 0
        if "class" in kinds[:-1] and any(e["default"] == NoneStr and e["typ"] in ("int", "str", "float", "bool") for e in ps):
            return "KF-RT-class-none-to-zero"
        # chain_A|g3_13_1_2 (class -> argparse): parse.class_ gives the return entry the int default 0; emit.argparse_function hands
        # it to ast.parse: TypeError compile() arg 1 must be a string
        if kinds == ("class", "argparse") and any(e["ret"] and e["default"] == ABSENT for e in es):
            return "KF-RT-argparse-ret-nonstr-default-crash"
        # chain_A|g3_12_1_0 (numpydoc -> google): the forced default of the first hop is written as 'Defaults to 0' by the second
        if anyk("numpydoc", "google") and any(e["default"] == ABSENT and any(p["default"] != ABSENT for p in es[:i]) for i, e in enumerate(es)):
            return "KF-RT-np-force-default"
        # chain_A|g3_13_2_1, g1_8_0 (function -> numpydoc): the function hop drops the plain-name type of an entry with a code default, the
        # docstring hop then has an untyped entry (KF-RT-untyped-npgoogle)
        if anyk("class", *FN) and any(is_code(e["default"]) and "[" not in (e["typ"] or "") for e in es):
            return "KF-RT-code-default-drops-type"
        # chain_A|g1_23_0 (numpydoc -> class): a default without prose is lost in the docstring hop; the next hop invents its own
        if anyk(*DOCS, *FN) and any(not e["doc"] and e["default"] != ABSENT for e in ps):
            return "KF-RT-noprose-default"
        # chain_A|g1_41_2 (argparse -> function): argparse's zero value '' for a Literal parameter, then the function docstring's
        # 'Defaults to ""' makes the parser replace the annotation by 'str' (KF-RT-fn-typ-from-default)
        if "argparse" in kinds[:-1] and kinds[-1] in FN and any(e["default"] == ABSENT and e["typ"] not in ("int", "str", "float", "bool") for e in ps):
            return "KF-RT-fn-typ-from-default"
        # chain_A|g3_19_1_0 (function -> numpydoc): emit.function invents `= None` (KF-RT-fn-none-default), which then counts as "a default
        # was seen" for numpydoc/google: the return entry acquires the zero value
        if any(k in FN for k in kinds[:-1]) and kinds[-1] in ("numpydoc", "google") and any(e["default"] == ABSENT for e in ps):
            return "KF-RT-np-force-default"
    return None


def cfg_opts(cfg):
    from harness.gridrun import CFGS

    return {k: v for k, v in CFGS[cfg][2].items() if k == "inline_types" and v is False}
