"""Regenerate seeded/README.md from seeded/*/meta.json (results are recorded by hand in meta['detected_by'] after running tools/seeded_run.sh)."""
import glob, json, os
rows = []
for d in sorted(glob.glob("/verif/seeded/*/")):
    m = json.load(open(d + "meta.json"))
    rows.append((os.path.basename(d.rstrip("/")), m.get("property"), m.get("summary", "")[:230].replace("\n", " "),
                 (m.get("needs_to_manifest") or m.get("what_it_needs_to_manifest") or "")[:230].replace("\n", " "),
                 "; ".join(m.get("detected_by", [])) or "NOT DETECTED", m.get("first_run", "")))
with open("/verif/seeded/README.md", "w") as f:
    f.write("# Seeded changes (from independent sub-agents; each confirmed by `tools/seeded_ingest.sh`: pinned suite passes, demo fails with / passes without)\n\n")
    f.write("Run one with `tools/seeded_run.sh <id> quick [checks...]` (applies the patch to /repo, runs the checks, undoes it).\n\n")
    f.write("| id | property | change | needs to manifest | detected by (quick tier) | on first run |\n|---|---|---|---|---|---|\n")
    for r in rows:
        f.write("| %s | %s | %s | %s | %s | %s |\n" % r)
