#!/usr/bin/env python3
"""patch the last column of DESIGN.md §4 ("obligations / wall") from the committed quick-tier evidence files"""
import json
import re

s = open("/verif/DESIGN.md").read()
out = []
in_main = False
for line in s.split("\n"):
    if line.startswith("## 4."):
        in_main = True
    elif line.startswith("### 4.1") or line.startswith("## 5."):
        in_main = False
    m = re.match(r"^\| (C\d\d) \|", line)
    if in_main and m and line.count("|") >= 6 and "obligations / wall" not in line:
        try:
            e = json.load(open("/verif/evidence/%s.json" % m.group(1)))
        except FileNotFoundError:
            out.append(line)
            continue
        if e.get("tier") == "quick":
            w = e["wall_s"]
            cell = " %d / %s " % (e["coverage"]["obligations"], ("%.1f min" % (w / 60)) if w >= 90 else ("%d s" % w))
            parts = line.split("|")
            parts[-2] = cell
            line = "|".join(parts)
    out.append(line)
open("/verif/DESIGN.md", "w").write("\n".join(out))
