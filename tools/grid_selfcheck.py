#!/verif/.venv/bin/python
"""every grid cell of every property passes check_row with exactly the known findings that list that property (what a check sees)"""
import json
import multiprocessing
import sys

sys.path.insert(0, "/verif")


def work(job):
    prop, cfg = job
    from harness import gridrun as G
    from lib import grid

    kf = json.load(open("/verif/known_findings.json"))
    active = tuple(sorted(f["id"] for f in kf["findings"] if f.get("status") == "open" and (
        f["property"] == prop or (isinstance(f["property"], list) and prop in f["property"]))))
    bad = []
    for rid in grid.IDS:
        try:
            ok = G.check_row(cfg, rid, active)
        except Exception as e:
            ok = False
        if not ok:
            bad.append(rid)
    return prop, cfg, bad


if __name__ == "__main__":
    from harness import gridrun as G

    jobs = [(p, c) for p, cs in G.BY_PROP.items() for c in cs]
    rc = 0
    with multiprocessing.Pool(8) as pool:
        for prop, cfg, bad in pool.imap_unordered(work, jobs):
            if bad:
                rc = 1
                print(prop, cfg, len(bad), bad[:5])
    print("grid selfcheck:", "FAILED" if rc else "ok")
    sys.exit(rc)
