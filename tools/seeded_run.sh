#!/bin/bash
# tools/seeded_run.sh [--scratch] <seeded-id> [tier] [checks...]
#   default: apply /verif/seeded/<id>/patch.diff to /repo, run the checks, undo (git checkout -- .).  Never commits anything to /repo.
#   --scratch: apply it to a scratch worktree of /repo's HEAD under /tmp instead and point the checks at it with VERIF_REPO
#              (development aid: lets several runs proceed while /repo itself stays untouched); the worktree is removed afterwards.
scratch=0; if [ "$1" = "--scratch" ]; then scratch=1; shift; fi
id=$1; tier=${2:-quick}; shift; shift
d=/verif/seeded/$id
[ -f $d/patch.diff ] || { echo "no $d/patch.diff"; exit 2; }
checks=${@:-$(python3 -c "import json;print(' '.join(json.load(open('$d/meta.json')).get('run_checks',[json.load(open('$d/meta.json'))['property']])))")}
if [ $scratch = 1 ]; then
  w=/tmp/verif_scratch_$id_$$; git -C /repo worktree add -q --detach $w HEAD || exit 2
  trap 'git -C /repo worktree remove --force '$w EXIT
  git -C $w apply $d/patch.diff || { echo "patch does not apply"; exit 2; }
  export VERIF_REPO=$w
else
  cd /repo
  git diff --quiet || { echo "/repo has uncommitted changes; refusing"; exit 2; }
  git apply $d/patch.diff || { echo "patch does not apply"; exit 2; }
  trap 'git -C /repo checkout -- . ' EXIT
fi
cd /verif
for c in $checks; do
  out=$(./check $c $tier 2>&1); rc=$?
  echo "== $id on $c $tier: exit=$rc"
  echo "$out" | grep -E "VIOLATION|counterexample|harness-error|inconclusive" | head -8
done
