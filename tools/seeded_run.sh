#!/bin/bash
# tools/seeded_run.sh <seeded-id> [tier] [checks...]   apply /verif/seeded/<id>/patch.diff to /repo, run the checks, undo.
# Never commits anything to /repo.  Prints one line per check: <check> exit=<rc> and the VIOLATION lines.
id=$1; tier=${2:-quick}; shift; shift
d=/verif/seeded/$id
[ -f $d/patch.diff ] || { echo "no $d/patch.diff"; exit 2; }
cd /repo
git diff --quiet || { echo "/repo has uncommitted changes; refusing"; exit 2; }
git apply $d/patch.diff || { echo "patch does not apply"; exit 2; }
trap 'git -C /repo checkout -- . ' EXIT
checks=${@:-$(python3 -c "import json;print(' '.join(json.load(open('$d/meta.json')).get('run_checks',[json.load(open('$d/meta.json'))['property']])))")}
cd /verif
for c in $checks; do
  out=$(./check $c $tier 2>&1); rc=$?
  echo "== $id on $c $tier: exit=$rc"
  echo "$out" | grep -E "VIOLATION|counterexample|harness-error|inconclusive" | head -8
done
