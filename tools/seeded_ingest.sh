#!/bin/bash
# tools/seeded_ingest.sh <Cxx> <seeded-id>: confirm a sub-agent's change myself (pinned suite, demo with / without), then keep it under /verif/seeded/<seeded-id>/
P=$1; ID=${2:-$1-a}; W=/tmp/wt/$P; O=/tmp/seeded_out/$P
set -e
[ -f $O/patch.diff ] || { echo "no patch"; exit 2; }
git -C $W diff > /tmp/wt/$P.now.diff
cmp -s <(grep -v '^index' $O/patch.diff) <(grep -v '^index' /tmp/wt/$P.now.diff) || echo "note: patch.diff differs from worktree diff (using worktree diff)"
cp /tmp/wt/$P.now.diff $O/patch.diff
echo "--- baseline with change:"; /venv/bin/python /tmp/wt/baseline.py $W
echo "--- demo with change:"; set +e; /venv/bin/python $O/demo.py $W > /tmp/wt/$P.demo_with.txt 2>&1; rc1=$?; tail -3 /tmp/wt/$P.demo_with.txt; echo "exit=$rc1"
echo "--- demo without change (on /repo HEAD):"; /venv/bin/python $O/demo.py /repo > /tmp/wt/$P.demo_without.txt 2>&1; rc0=$?; tail -3 /tmp/wt/$P.demo_without.txt; echo "exit=$rc0"
set -e
if [ $rc1 -eq 1 ] && [ $rc0 -eq 0 ]; then
  mkdir -p /verif/seeded/$ID; cp $O/patch.diff $O/demo.py /verif/seeded/$ID/
  python3 - <<PY
import json
m=json.load(open("$O/meta.json"))
m["confirmed_by_me"]={"baseline_missing":0,"demo_exit_with_change":$rc1,"demo_exit_without_change":$rc0,"how":"tools/seeded_ingest.sh: pinned suite via baseline.py in the agent's worktree; demo.py against the worktree and against /repo HEAD"}
m.setdefault("run_checks",[m.get("property","$P")])
json.dump(m,open("/verif/seeded/$ID/meta.json","w"),indent=1)
PY
  echo "KEPT as /verif/seeded/$ID"
else
  echo "NOT CONFIRMED (with=$rc1 without=$rc0)"; exit 1
fi
