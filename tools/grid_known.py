#!/verif/.venv/bin/python
"""
(Re)generate /verif/grid_known.json: run every grid configuration x row on the CURRENT tree (meant: the pinned tree, by hand, when a new
finding has been triaged), keep the rows that fail after the feature tolerances of harness/rt.py, classify each under a known-finding id
(rules below, reviewed by hand - an unclassified row aborts) and store the digest of its exact outcome.  Never run by a check.
"""
import collections
import json
import multiprocessing
import sys

sys.path.insert(0, "/verif")


def work(cfg):
    from harness import gridrun as G
    from lib import grid

    kf = json.load(open("/verif/known_findings.json"))
    active = tuple(f["id"] for f in kf["findings"] if f.get("status") == "open")
    out = {}
    for rid in grid.IDS:
        if not G.applicable(cfg, rid, active):
            continue
        st, dig, desc = G.outcome(cfg, rid, active)
        if st != "ok":
            out["%s|%s" % (cfg, rid)] = (dig, desc, G.kinds_for(cfg, rid))
    return out


def feat(key, desc):
    """description with parameter names replaced by the blamed entry's features"""
    from tools.grid_rules import entries

    es = {e["name"]: e for e in entries(key.split("|")[1])}
    es["returns"] = es.get("return_type")
    out = []
    for part in desc.split("; "):
        w, _, c = part.partition(": ")
        e = es.get(w)
        if e:
            out.append("%s{%s=%r%s%s}" % (c, e["typ"], e["default"], "" if e["doc"] else ",noprose", ",RET" if e["ret"] else ""))
        else:
            out.append(part)
    return "; ".join(sorted(set(out)))


def classify(key, dig, desc, kinds):
    from tools.grid_rules import rule

    return rule(key, dig, desc, kinds)


if __name__ == "__main__":
    from harness import gridrun as G

    force = "--force" in sys.argv
    flags = [a for a in sys.argv if a.startswith("--")]
    sys.argv = [a for a in sys.argv if not a.startswith("--")]
    cfgs = [c for c in G.CFGS if not sys.argv[2:] or any(c.startswith(a) for a in sys.argv[2:])]
    with multiprocessing.Pool(int(sys.argv[1]) if sys.argv[1:] else 4) as pool:
        res = {}
        for r in pool.imap_unordered(work, cfgs):
            res.update(r)
    rows, groups, unclassified = {}, collections.defaultdict(list), collections.defaultdict(list)
    detail = collections.defaultdict(lambda: collections.defaultdict(list))
    for key, (dig, desc, kinds) in sorted(res.items()):
        kid = classify(key, dig, desc, kinds)
        if kid is None:
            unclassified[(key.split("|")[0].split("_")[0], feat(key, desc))].append(key)
            continue
        rows[key] = [kid, dig]
        groups[kid].append(key)
        detail[kid][(key.split("|")[0].split("_")[0], feat(key, desc))].append(key)
    for kid, ks in sorted(groups.items()):
        print("%-40s %5d  e.g. %s" % (kid, len(ks), ks[0]))
        if "--detail" in flags:
            for (fam, d), kk in sorted(detail[kid].items(), key=lambda kv: -len(kv[1])):
                print("      %-9s %-120s %4d %s" % (fam, d[:120], len(kk), kk[0]))
    if unclassified:
        print("UNCLASSIFIED groups: %d" % len(unclassified))
        for (fam, desc), ks in sorted(unclassified.items(), key=lambda kv: -len(kv[1]))[:80]:
            print("  %-9s %-110s %5d %s" % (fam, desc[:110], len(ks), ks[:2]))
        if not force:
            sys.exit(1)
    if sys.argv[2:]:
        old = json.load(open("/verif/grid_known.json"))["rows"]
        old = {k: v for k, v in old.items() if not any(k.startswith(a) for a in sys.argv[2:])}
        old.update(rows)
        rows = old
    json.dump({"note": "written by tools/grid_known.py on the pinned tree; never at check time", "rows": rows},
              open("/verif/grid_known.json", "w"), indent=0, sort_keys=True)
    print("rows listed:", len(rows))
