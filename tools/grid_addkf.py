import json, sys, collections
sys.path.insert(0, '/verif')
from harness import gridrun as G
rows = json.load(open('/verif/grid_known.json'))['rows']
cfg2prop = {c: p for p, cs in G.BY_PROP.items() for c in cs}
props = collections.defaultdict(set); first = {}
for key, (kid, dig) in sorted(rows.items()):
    cfg, rid = key.split('|')
    props[kid].add(cfg2prop[cfg])
    def rank(c, r):
        return (c.startswith("chain"), c.startswith("stab"), not r.startswith("g1_"))
    if kid not in first or rank(cfg, rid) < rank(*first[kid]):
        first[kid] = (cfg, rid)
NEW = {
 "KF-RT-optional-prose-wraps-type": ("a parameter whose prose begins with the word Optional / (Optional) and whose declared type is not Optional[...]",
    "the parser's heuristic for untyped docstrings (prose starting with 'Optional' means the parameter is optional) also fires when a type is declared: T comes back as Optional[T]; combined with KF-RT-fn-typ-from-default a declared Optional[Literal[..]] comes back as Optional[str]"),
 "KF-RT-str-default-dot": ("a str default that contains a full stop ('x.y', '.bak'), default text on",
    "the end-of-value scan of extract_default is not quote-aware (KF-C17-strdot): 'Defaults to \"x.y\"' is cut at the stop - the default comes back as 'x' (or '\"x'), the rest lands in the prose, and parse.function / the class emitter can then raise SyntaxError (unterminated string literal)"),
 "KF-RT-ret-untyped": ("a return entry that has prose but no type",
    "class annotates the reserved attribute `object` (read back as a type), google reads the prose line as the type, numpydoc writes the prose where the type belongs and reads 'Returns' / '-------' back as parameter names"),
 "KF-RT-ret-noprose": ("a return entry that has a type but no prose, numpydoc / google / function with inline_types=False",
    "numpydoc's parser indexes the missing prose line (IndexError: list index out of range); google reads the type line as prose and loses the type; emit.function without inline types has no ':returns:' line to attach the ':rtype:' to, so the return entry is lost"),
 "KF-RT-quote-nonstr-default": ("an entry whose type mentions str (Union[int, str], ...) with a non-str default (3), default text on or a class / function emitter",
    "set_default_doc calls quote() on the default because the TYPE needs quoting; quote() assumes a str or an ast node: AttributeError 'int' object has no attribute 'value' - emitting Union[int, str] = 3 crashes"),
 "KF-RT-dotted-code-default": ("a back-tick code default that has a dot outside parentheses, e.g. ```np.empty(0)```",
    "extract_default cuts the default at the first dot outside brackets: ```np.empty(0)``` is read back as 'np' and the rest ('empty(0)```') lands in the prose; in a class the type is lost as well"),
 "KF-RT-untyped-str-default-unquoted": ("an untyped parameter with a str default, ReST docstring / function docstring",
    "the default is written unquoted ('Defaults to x'); on the way back the inferred type makes extract_default call literal_eval('x'): ValueError malformed node or string"),
 "KF-RT-class-untyped-object": ("an untyped parameter emitted as a class attribute",
    "emit.class_ annotates an untyped attribute `object`; parse.class_ reads that back as the type 'object' (a type the description never had)"),
 "KF-RT-bare-param-dropped": ("a parameter that has a name only (no type, no prose, no default), docstring kinds",
    "nothing is written for it, so it does not come back: the parameter name is lost"),
 "KF-RT-fn-noprose-kwargs-dropped": ("a **kwargs entry without prose, function / method",
    "emit.function writes **name in the signature but no docstring line; parse.function does not report the **kwargs parameter at all: the name is lost"),
 "KF-RT-noprose-type-not-inline": ("a parameter without prose, emit.function with inline_types=False",
    "types go to the docstring when not inline, but a parameter without prose gets no docstring line, so its type is lost"),
 "KF-RT-argparse-list-default": ("argparse: List[str] with a code default ```['a']```",
    "emitted as action='append', default='a' - the list default comes back as the string 'a'"),
 "KF-RT-argparse-bool-optional": ("argparse: bool parameter without default",
    "emitted as add_argument(type=bool) without required=True, so it is read back as Optional[bool]"),
 "KF-RT-argparse-force-default": ("argparse: an Optional[...] option without default that follows an option with a default",
    "the parser forces a default on every later option once one default was seen: the Optional option acquires the explicit default None"),
 "KF-RT-fn-untyped-typ-none": ("a function whose parameter has neither annotation nor default, parsed and emitted again",
    "parse.function reports 'typ': None for it; emit.function then builds an annotation from None - the emitted tree cannot be unparsed (TypeError) and differs from the next emission"),
 "KF-RT-argparse-ret-nonstr-default-crash": ("class -> argparse: a return entry whose default came back from parse.class_ as a non-str (int 0)",
    "emit.argparse_function hands the return default to ast.parse: TypeError compile() arg 1 must be a string"),
}
kf = json.load(open('/verif/known_findings.json'))
byid = {f['id']: f for f in kf['findings']}
for kid in sorted(props):
    ps = sorted(props[kid])
    cfg, rid = first[kid]
    if kid in byid:
        f = byid[kid]
        old = f['property'] if isinstance(f['property'], list) else [f['property']]
        f['property'] = old + [p for p in ps if p not in old]
        if f['witness'].get('module') == 'harness.gridrun':
            f['witness']['body'] = "H.check_row(%r, %r, ())" % (cfg, rid)
        print("extended", kid, f['property'])
    else:
        region, what = NEW[kid]
        kf['findings'].append({"id": kid, "property": ps, "status": "open", "region": region + " (rows listed in grid_known.json)", "what": what,
            "witness": {"params": [], "args": [], "module": "harness.gridrun", "body": "H.check_row(%r, %r, ())" % (cfg, rid)}})
        print("added", kid, ps, cfg, rid)
json.dump(kf, open('/verif/known_findings.json', 'w'), indent=1)
