"""
ASCII fast paths for CrossHair's symbolic `str` (LazyIntSymbolicStr).

CrossHair models casefold/lower/upper/isspace/isdigit/isdecimal/splitlines with full-Unicode
SMT mask tables and one solver fork *per character per call* - also for characters whose
codepoint is a concrete int.  doctrans' `location_within` case-folds every slice of a
docstring, which made a single symbolic path cost 12-16 s.  These replacements
  * evaluate concrete codepoints with CPython itself,
  * decide symbolic codepoints with plain integer comparisons when the codepoint is < 128,
  * fall back to CrossHair's original Unicode model as soon as a symbolic codepoint may be >= 128,
so they are exact on the whole domain; measured speed-up ~25x per path.
They are part of the trusted base of every 'Confirmed' verdict (listed in evidence).
"""
from crosshair.libimpl import builtinslib as _bl
from crosshair.tracers import NoTracing

_L = _bl.LazyIntSymbolicStr


def _is_concrete(cp):
    with NoTracing():
        return type(cp) is int


def _mk_map(orig, conc, lo, hi, delta):
    def f(self):
        with NoTracing():
            cps = self._codepoints
        out = []
        for cp in cps:
            if _is_concrete(cp):
                with NoTracing():
                    out.extend(map(ord, conc(chr(cp))))
            elif cp >= 128:
                return orig(self)
            elif lo <= cp <= hi:
                out.append(cp + delta)
            else:
                out.append(cp)
        with NoTracing():
            return _L(out)

    return f


def _mk_pred(orig, conc, sym):
    def f(self):
        with NoTracing():
            cps = self._codepoints
        if self.__len__() == 0:
            return False
        for cp in cps:
            if _is_concrete(cp):
                with NoTracing():
                    ok = conc(chr(cp))
                if not ok:
                    return False
            elif cp >= 128:
                return orig(self)
            elif not sym(cp):
                return False
        return True

    return f


def _sym_space(cp):
    return cp == 32 or (9 <= cp <= 13) or (28 <= cp <= 31)


def _sym_digit(cp):
    return 48 <= cp <= 57


_orig_splitlines = _L.splitlines


def _conc_is_nl(cp):
    with NoTracing():
        return len((chr(cp) + "x").splitlines()) == 2


def _splitlines(self, keepends=False):
    with NoTracing():
        cps = self._codepoints
    n = self.__len__()
    out = []
    start = 0
    i = 0
    while i < n:
        cp = cps[i]
        if _is_concrete(cp):
            isnl = _conc_is_nl(cp)
        elif cp >= 128:
            return _orig_splitlines(self, keepends)
        else:
            isnl = cp == 10 or cp == 13 or cp == 11 or cp == 12 or (28 <= cp <= 30)
        if isnl:
            end = i + 1
            if cp == 13 and i + 1 < n and cps[i + 1] == 10:
                end = i + 2
            out.append(self[start : (end if keepends else i)])
            start = end
            i = end
        else:
            i += 1
    if start < n:
        out.append(self[start:])
    return out


def install():
    _L.casefold = _mk_map(_L.casefold, str.casefold, 65, 90, 32)
    _L.lower = _mk_map(_L.lower, str.lower, 65, 90, 32)
    _L.upper = _mk_map(_L.upper, str.upper, 97, 122, -32)
    _L.isspace = _mk_pred(_L.isspace, str.isspace, _sym_space)
    _L.isdigit = _mk_pred(_L.isdigit, str.isdigit, _sym_digit)
    _L.isdecimal = _mk_pred(_L.isdecimal, str.isdecimal, _sym_digit)
    _L.splitlines = _splitlines


install()
