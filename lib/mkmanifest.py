"""Regenerate MANIFEST.json from the table below (kept in one place so it always validates)."""
import json

CLAIMED = {
    "C17": ("defaults survive the trip through prose: bounded symbolic execution (CrossHair+z3) of extract_default / set_default_doc / "
            "interpolate_defaults with the characters of the value text, the prose and the int/bool value as solver variables; "
            "every counterexample replayed on plain CPython", "DESIGN.md#c17"),
}
CLAIMED["C15"] = ("dotted locations: annotate_ancestry / find_in_ast / RewriteAtQuery executed symbolically on hand-built modules whose identifiers and "
    "search segments are solver variables (the solver chooses which names coincide across scopes), judged against an independent resolver over ast",
    "DESIGN.md#c15")
_RT = ("emit.* -> parse.* of the real code executed symbolically on an IR whose shape is concrete and whose prose / int / str / bool "
       "content are solver variables; independent interface comparator; known-finding tolerances per (kind, difference code, feature)")
CLAIMED["C01"] = ("docstring round trip in three styles: " + _RT, "DESIGN.md#c01")
CLAIMED["C02"] = ("config-class round trip at AST level (symbolic) and through unparse/re-parse (finite, solver-enumerated): " + _RT, "DESIGN.md#c02")
CLAIMED["C03"] = ("function/method round trip over the emitter option grid: " + _RT, "DESIGN.md#c03")
CLAIMED["C04"] = ("argparse-function round trip on the argparse-expressible part of the domain: " + _RT, "DESIGN.md#c04")
CLAIMED["C05"] = ("chains of two and three representation kinds executed directly and judged against the start IR: " + _RT, "DESIGN.md#c05")
CLAIMED["C08"] = ("second and third emission compared (string / structural equality) with symbolic content: " + _RT, "DESIGN.md#c08")
CLAIMED["C06"] = ("emitted code judged (S) by reference models of Python's binding rules on the emitted AST with symbolic defaults, and (F) by the "
    "interpreter itself (compile, exec, inspect.signature, class __dict__, real ArgumentParser) over a solver-enumerated finite value domain", "DESIGN.md#c06")
CLAIMED["C13"] = ("interference: frame conditions per emitter with symbolic content, plus every emitter sequence of length <=4 on one shared IR "
    "(sequence chosen by the solver, exhaustive) compared against fresh copies", "DESIGN.md#c13")
CLAIMED["C07"] = ("parse.function / parse.class_(merge __init__) on definitions built as ast objects whose configuration (defaults count, keyword-only "
    "mask, **kw, self/cls, style, documented subset and order) is chosen and exhausted by the solver and whose default values are symbolic ints; "
    "judged by a reference model of Python's signature binding", "DESIGN.md#c07")
CLAIMED["C12"] = ("determinism: set-iteration order as solver variables (ordered-set shim over OrderedDict/set/frozenset in every doctrans module) on "
    "partially documented definitions, frame condition on module globals / function attributes with symbolic content, f-after-g for every pair; "
    "plus a source scan for un-interceptable set iteration and a PYTHONHASHSEED sweep as process-level cross-check", "DESIGN.md#c12")
CLAIMED["C18"] = ("word-wrap transparency with the WIDTH as the solver variable: fill/line_length rebound to a symbolic int in every doctrans module, "
    "real textwrap executed symbolically on concrete text, parse(wrapped) vs parse(unwrapped); the DOCTRANS_LINE_LENGTH read path re-executed from "
    "pure_utils' own AST with a symbolic digit string", "DESIGN.md#c18")
_SY = ("the real conformance.ground_truth / __main__.main on an in-memory file system with real black; the configuration vector is a solver "
       "variable and is exhausted path by path (finite, solver-enumerated); file contents are concrete because they cross ast.parse/black")
CLAIMED["C09"] = ("sync agreement for every truth kind x given kinds x target pre-state x function|method x description: " + _SY, "DESIGN.md#c09")
CLAIMED["C10"] = ("sync histories of 1..3 invocations with solver-chosen truth kinds from every pre-state combination: idempotence, truth file "
    "never opened for writing, report == byte changes: " + _SY, "DESIGN.md#c10")
CLAIMED["C11"] = ("preservation: (S) RewriteAtQuery on hand-built modules with symbolic identifiers (target among siblings sharing names), "
    "(F) the real sync on the in-memory FS over target modules x position x trailing newline x pre-state with the named definition masked", "DESIGN.md#c11")
CLAIMED["C20"] = ("rejected / failing invocations: the argv combination, the crash index k of an injected OSError (before open / after truncating open / "
    "mid-write) and the index j of a failing emitter call are solver variables over the real __main__.main / ground_truth / sync_properties on the "
    "in-memory FS; every file afterwards is untouched or complete and parseable", "DESIGN.md#c20")
CLAIMED["C14"] = ("sync_properties: (S) sync_property on hand-built modules whose output identifiers and location segments are solver variables "
    "(resolving or not), with and without wrap template; (F) sync_properties on the in-memory FS over module pairs x 1..3 pairs x wrap x eval", "DESIGN.md#c14")
CLAIMED["C16"] = ("carried bodies: (S) RewriteName / emit.class_(emit_call) on a body template whose identifiers are solver variables against an "
    "independent scoping model; (F) every body of <=3 statements from 8 statement kinds + 4 final-return forms (solver-enumerated) through "
    "parse->emit of function / method / argparse function", "DESIGN.md#c16")
NA = {
    "C19": "gen: every data path crosses importlib / inspect.getsource / compile+exec / file output, no symbolic data path is left; what remains is enumeration of a few concrete configurations, which is not this technique (DESIGN.md §C19)",
}
ALL = ["C%02d" % i for i in range(1, 21)]

def main():
    checks = []
    for pid in ALL:
        if pid in CLAIMED:
            text, ref = CLAIMED[pid]
            checks.append({
                "property_id": pid,
                "quick_cmd": "./check %s quick" % pid,
                "thorough_cmd": "./check %s thorough" % pid,
                "evidence_file": "/verif/evidence/%s.json" % pid,
                "replay_cmd_template": "./check replay {path}",
                "engine": "crosshair-z3",
                "level_claimed": {"category": "model_checking", "text": "bounded symbolic model checking of the real code: " + text +
                                  ". Holds for every value within the stated bounds only; nothing is claimed outside them.", "design_ref": ref},
                "level_note": "trusted: CrossHair 0.0.110 str/int/container models (+ lib/prelude.py eq shim, lib/chfast.py ASCII fast paths), z3 5.1.0, "
                              "the per-obligation stubs and oracles listed in the evidence file; inconclusive obligations are reported, never counted as success",
                "technique": "solver-based: CrossHair symbolic execution of /repo's functions with z3 (per-path), counterexample replay on CPython",
            })
    na = [{"property_id": p, "reason": r} for p, r in NA.items()]
    for pid in ALL:
        if pid not in CLAIMED and pid not in NA:
            na.append({"property_id": pid, "reason": "check not built yet in this round (planned, see DESIGN.md §4)"})
    m = {
        "version": 1,
        "setup_cmd": "bash lib/env.sh",
        "hooks": {"guard": "DOCTRANS_VERIF", "enable": "no source hooks are needed: harnesses stub by shadowing names in doctrans module namespaces at run time",
                  "baseline_off_cmd": "/venv/bin/python /verif/lib/baseline.py", "source_commits": [], "add_only": True},
        "engines": [{"name": "crosshair-z3", "path": "/verif/lib/runner.py", "serves_properties": sorted(CLAIMED),
                     "kind_free_text": "CrossHair 0.0.110 (symbolic execution of Python, z3 5.1.0) driven per obligation; direct z3 queries for string/regex lemmas"}],
        "checks": checks,
        "not_applicable": na,
        "notes": "fix: commits in /repo and known findings are listed in /verif/known_findings.json; see DESIGN.md",
    }
    json.dump(m, open("/verif/MANIFEST.json", "w"), indent=1)

if __name__ == "__main__":
    main()
