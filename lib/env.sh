#!/bin/bash
# Build (idempotently, offline) the overlay venv the checks run in:
#   /venv's site-packages (repo deps) + /repo (current working tree, imported live) + crosshair-tool/z3 from the wheelhouse.
set -e
V=/verif/.venv
mkdir -p /verif/.work
exec 9>/verif/.work/.envlock
flock 9
if [ ! -x $V/bin/crosshair ] || ! $V/bin/python -c "import crosshair, z3, doctrans" 2>/dev/null; then
  rm -rf $V
  /venv/bin/python -m venv $V
  SP=$($V/bin/python -c "import site;print(site.getsitepackages()[0])")
  printf "import site; site.addsitedir('/venv/lib/python3.12/site-packages')\n/repo\n" > $SP/_verif_overlay.pth
  PIP_NO_INDEX=1 $V/bin/pip install -q --no-index --find-links /opt/veriftools/wheels crosshair-tool >/dev/null
  $V/bin/python -c "import crosshair, z3, doctrans"
fi
flock -u 9
