"""
In-memory file system + fault injector bound into doctrans module namespaces by the harnesses
(doctrans.emit.open, doctrans.conformance.open / .path, doctrans.sync_properties.open / .path, doctrans.__main__.path).

Semantics modelled (and nothing more): open(name,'r'/'rt') of a missing file raises FileNotFoundError; 'w'/'wt' truncates at
open; 'a' appends; write() lands atomically unless a fault is injected; every open/write/close is an *event* with an index.
Fault injection: `fail_at=k` raises OSError at the k-th event; for a write event `partial=True` lets the first half land.
"""
import posixpath


class _File:
    def __init__(self, fs, name, mode):
        self.fs, self.name, self.mode = fs, name, mode
        self.pos = 0
        self.closed = False

    def read(self):
        return self.fs.files[self.name]

    def write(self, data):
        self.fs._event("write", self.name, data)
        self.fs.files[self.name] = self.fs.files.get(self.name, "") + data
        self.fs.writes.append(self.name)
        return len(data)

    def close(self):
        self.closed = True

    def __enter__(self):
        return self

    def __exit__(self, *a):
        self.close()
        return False


class FS:
    def __init__(self, files=None, fail_at=None, partial=False):
        self.files = dict(files or {})
        self.log = []
        self.writes = []
        self.opened_w = []
        self.fail_at = fail_at
        self.partial = partial
        self.n = 0
        self.path = _Path(self)

    def _event(self, kind, name, data=None):
        i = self.n
        self.n += 1
        self.log.append((kind, name))
        if self.fail_at is not None and i == self.fail_at:
            if kind == "write" and self.partial and data:
                self.files[name] = self.files.get(name, "") + data[: len(data) // 2]
            raise OSError("injected fault at event %d (%s %s)" % (i, kind, name))

    def open(self, name, mode="r", *a, **k):
        m = mode.replace("t", "")
        if name.startswith("~"):
            raise FileNotFoundError(name)  # an unexpanded '~' is an ordinary (missing) directory name for open()
        self._event("open-" + m, name)
        if m == "r":
            if name not in self.files:
                raise FileNotFoundError(name)
        elif m == "w":
            self.files[name] = ""  # truncate-at-open
            self.opened_w.append(name)
        elif m == "a":
            self.files.setdefault(name, "")
            self.opened_w.append(name)
        else:
            raise ValueError(mode)
        return _File(self, name, m)

    def snapshot(self):
        return dict(self.files)


class _Path:
    """the subset of os.path that doctrans uses"""

    def __init__(self, fs):
        self.fs = fs

    def isfile(self, name):
        return name in self.fs.files

    def exists(self, name):
        return name in self.fs.files

    def realpath(self, name):
        return name

    HOME = "/home/u"

    def expanduser(self, name):
        if name == "~" or name.startswith("~/"):
            return self.HOME + name[1:]
        return name

    join = staticmethod(posixpath.join)
    dirname = staticmethod(posixpath.dirname)
    basename = staticmethod(posixpath.basename)
    extsep = "."
    splitext = staticmethod(posixpath.splitext)


def install(fs, *modules):
    """bind fs.open / fs.path into the given doctrans modules; returns an undo function"""
    saved = []
    for m in modules:
        for attr, val in (("open", fs.open), ("path", fs.path)):
            had = attr in m.__dict__
            if attr == "path" and not had:
                continue
            saved.append((m, attr, had, m.__dict__.get(attr)))
            setattr(m, attr, val)

    def undo():
        for m, attr, had, old in saved:
            if had:
                setattr(m, attr, old)
            else:
                delattr(m, attr)

    return undo
