"""
Direct z3 obligation for C01's "the style is recognised from the text alone, so text emitted in one style is never read as another".

1. The REAL emitter (emit.docstring) is run once with sentinel strings in the content holes; the emitted text is cut at the sentinels
   into a template  c0 . H1 . c1 . H2 ... ck  (constants from the current source, z3 String variables for the holes).
2. The detection chain at the top of docstring_parsers.parse_docstring (an if / elif / else on
   `any(map(partial(contains, docstring), TOKENS.<style>))`) is located in the function's CURRENT AST and translated:
   `any(map(partial(contains, docstring), TOKENS.x))`  ->  Or(Contains(text, tok) for tok in TOKENS.x)   (token tuples read from
   docstring_utils at run time).  Anything the translator does not recognise makes the obligation inconclusive.
3. Query: is there hole content - every hole at most L characters over a printable alphabet, no hole containing a style token by
   itself (that is the documented domain restriction on prose) - such that detect(text) != the style that was emitted?  A model would
   be a token formed ACROSS a hole boundary or by the skeleton itself.  unsat = holds within the bound; sat = replayed through the
   real parse_docstring.
"""
import ast
import inspect
import time

import z3

SENT = "\x00%d\x00"


class Untranslatable(Exception):
    pass


def detection_chain(parse_docstring):
    """[(style_name | None for else, token_group_name)] from the first if/elif/else of parse_docstring that assigns `style`"""
    tree = ast.parse(inspect.getsource(parse_docstring))
    for n in ast.walk(tree):
        if isinstance(n, ast.If) and any(isinstance(x, ast.Assign) and getattr(x.targets[0], "id", "") == "style" for x in n.body):
            chain = []
            cur = n
            while True:
                chain.append((cur.test, _style_of(cur.body)))
                if len(cur.orelse) == 1 and isinstance(cur.orelse[0], ast.If):
                    cur = cur.orelse[0]
                else:
                    chain.append((None, _style_of(cur.orelse)))
                    break
            return chain
    raise Untranslatable("no if/elif chain assigning `style` in parse_docstring")


def _style_of(body):
    if len(body) == 1 and isinstance(body[0], ast.Assign) and isinstance(body[0].value, ast.Attribute) \
            and isinstance(body[0].value.value, ast.Name) and body[0].value.value.id == "Style":
        return body[0].value.attr
    raise Untranslatable("branch body: " + ast.dump(body[0])[:100])


def tr_test(node, text, TOKENS):
    """`docstring is None or any(map(partial(contains, docstring), TOKENS.x))`  ->  z3 Bool over `text`"""
    if isinstance(node, ast.BoolOp) and isinstance(node.op, ast.Or):
        return z3.Or(*[tr_test(v, text, TOKENS) for v in node.values])
    if isinstance(node, ast.Compare) and isinstance(node.ops[0], ast.Is) and isinstance(node.comparators[0], ast.Constant) \
            and node.comparators[0].value is None:
        return z3.BoolVal(False)  # the text is a str here
    if isinstance(node, ast.Call) and isinstance(node.func, ast.Name) and node.func.id == "any" and len(node.args) == 1:
        m = node.args[0]
        if isinstance(m, ast.Call) and isinstance(m.func, ast.Name) and m.func.id == "map" and len(m.args) == 2:
            f, toks = m.args
            if "contains" in ast.dump(f) and "docstring" in ast.dump(f) and isinstance(toks, ast.Attribute) \
                    and isinstance(toks.value, ast.Name) and toks.value.id == "TOKENS":
                group = getattr(TOKENS, toks.attr)
                return z3.Or(*[z3.Contains(text, z3.StringVal(t)) for t in group])
    raise Untranslatable("test: " + ast.dump(node)[:140])


def detect_term(chain, text, TOKENS, styles):
    """z3 Int: index into `styles` of the detected style (first matching branch wins)"""
    if chain[-1][0] is not None:
        raise Untranslatable("chain has no else branch")
    term = z3.IntVal(styles.index(chain[-1][1]))
    for test, style in reversed(chain[:-1]):
        term = z3.If(tr_test(test, text, TOKENS), z3.IntVal(styles.index(style)), term)
    return term


def real_detect(parse_docstring, docstring):
    """the same chain, EXECUTED: the If statement is cut out of parse_docstring's current source and run in its module namespace"""
    import sys

    tree = ast.parse(inspect.getsource(parse_docstring))
    for n in ast.walk(tree):
        if isinstance(n, ast.If) and any(isinstance(x, ast.Assign) and getattr(x.targets[0], "id", "") == "style" for x in n.body):
            ns = dict(vars(sys.modules[parse_docstring.__module__]))
            ns["docstring"] = docstring
            exec(compile(ast.Module(body=[n], type_ignores=[]), "<detection chain>", "exec"), ns)
            return ns["style"].name
    raise Untranslatable("chain not found")


def replay(emit_docstring, parse_docstring, mk_ir_filled, cex):
    ir = mk_ir_filled(cex["holes"])
    text = emit_docstring(ir, docstring_format=cex["style"], word_wrap=False)
    got = real_detect(parse_docstring, text)
    return got != cex["style"], "emitted as %s, detected as %s: %r" % (cex["style"], got, text)


def template(emit_docstring, ir_with_sentinels, style, nholes):
    text = emit_docstring(ir_with_sentinels, docstring_format=style, word_wrap=False)
    parts, holes = [], []
    rest = text
    # holes may be emitted in any order / several times: cut at every sentinel occurrence
    i = 0
    cur = ""
    while i < len(rest):
        if rest[i] == "\x00":
            j = rest.index("\x00", i + 1)
            parts.append(cur)
            holes.append(int(rest[i + 1:j]))
            cur = ""
            i = j + 1
        else:
            cur += rest[i]
            i += 1
    parts.append(cur)
    return parts, holes


ALPHA = "".join(chr(c) for c in range(32, 127)) + "\n"  # every printable ASCII character and the newline


def contains_one_hole(L, h, R, t):
    """z3 Bool for  t in (L . h . R)  with constant L, R, t and ONE string variable h: a finite disjunction of prefix / suffix /
    equality constraints on h (the sequence solver answers `unknown` on Contains over long concatenations, and decides these at once)"""
    if t in L or t in R:
        return z3.BoolVal(True)
    alts = [z3.Contains(h, z3.StringVal(t))]
    n = len(t)
    for i in range(1, n):          # t = t[:i] . t[i:], the cut lying at the L|h boundary or inside h / at h|R
        a, b = t[:i], t[i:]
        if L.endswith(a):          # ... L ends with a, and (h . R) starts with b
            alts.append(z3.PrefixOf(z3.StringVal(b), h))
            for j in range(0, len(b)):
                if R.startswith(b[j:]):
                    alts.append(h == z3.StringVal(b[:j]))
        if R.startswith(b):        # ... h ends with a, and R starts with b
            alts.append(z3.SuffixOf(z3.StringVal(a), h))
    return z3.Or(*alts)


def run(emit_docstring, parse_docstring, TOKENS, mk_ir, style, maxlen=3, timeout_ms=40000):
    """one query per hole (the other holes hold the concrete filler 'xx').  A token that the content could help to form touches one
    hole and the constants around it, PROVIDED every constant between two holes is at least as long as the longest token - checked
    here; otherwise the obligation is inconclusive."""
    t0 = time.time()
    styles = ["rest", "google", "numpydoc"]
    try:
        chain = detection_chain(parse_docstring)
    except Untranslatable as e:
        return {"status": "inconclusive", "detail": "detection chain not translatable: %s" % e, "queries": 0}
    ir, nholes = mk_ir()
    all_tokens = sorted({t for grp in TOKENS for t in grp})
    maxtok = max(map(len, all_tokens))
    alpha_re = z3.Star(z3.Union(*[z3.Re(c) for c in ALPHA]))
    nq = 0
    for k in range(nholes):
        vals = ["xx"] * nholes
        vals[k] = SENT % k
        ir_k = mk_ir(vals) if True else None
        text = emit_docstring(ir_k, docstring_format=style, word_wrap=False)
        if text.count(SENT % k) != 1:
            return {"status": "inconclusive", "detail": "hole %d is emitted %d times" % (k, text.count(SENT % k)), "queries": nq}
        L, R = text.split(SENT % k)
        h = z3.String("h%d" % k)
        s = z3.Solver()
        s.set("timeout", timeout_ms)
        s.add(z3.Length(h) >= 1, z3.Length(h) <= maxlen, z3.InRe(h, alpha_re))
        for t in all_tokens:
            s.add(z3.Not(z3.Contains(h, z3.StringVal(t))))
        s.add(z3.Not(z3.PrefixOf(z3.StringVal(" "), h)), z3.Not(z3.SuffixOf(z3.StringVal(" "), h)),
              z3.Not(z3.PrefixOf(z3.StringVal("\n"), h)), z3.Not(z3.SuffixOf(z3.StringVal("\n"), h)))  # prose is stripped

        class _T:  # token groups as z3 Bools for this hole
            pass

        def tr(node):
            if isinstance(node, ast.BoolOp) and isinstance(node.op, ast.Or):
                return z3.Or(*[tr(v) for v in node.values])
            if isinstance(node, ast.Compare) and isinstance(node.ops[0], ast.Is):
                return z3.BoolVal(False)
            if isinstance(node, ast.Call) and getattr(node.func, "id", "") == "any":
                m = node.args[0]
                if isinstance(m, ast.Call) and getattr(m.func, "id", "") == "map" and len(m.args) == 2 and "contains" in ast.dump(m.args[0]) \
                        and "docstring" in ast.dump(m.args[0]) and isinstance(m.args[1], ast.Attribute) and getattr(m.args[1].value, "id", "") == "TOKENS":
                    return z3.Or(*[contains_one_hole(L, h, R, t) for t in getattr(TOKENS, m.args[1].attr)])
            raise Untranslatable("test: " + ast.dump(node)[:140])

        try:
            if chain[-1][0] is not None:
                raise Untranslatable("chain has no else branch")
            det = z3.IntVal(styles.index(chain[-1][1]))
            for test, st in reversed(chain[:-1]):
                det = z3.If(tr(test), z3.IntVal(styles.index(st)), det)
        except Untranslatable as e:
            return {"status": "inconclusive", "detail": "detection chain not translatable: %s" % e, "queries": nq}
        s.add(det != styles.index(style))
        r = s.check()
        nq += 1
        if str(r) == "sat":
            v = s.model().eval(h, model_completion=True).as_string()
            vals[k] = v
            return {"status": "violated", "detail": "hole %d = %r makes %s-emitted text detect as another style" % (k, v, style),
                    "cex": {"holes": vals, "style": style}, "queries": nq, "solver_s": time.time() - t0}
        if str(r) != "unsat":
            return {"status": "inconclusive", "detail": "hole %d: solver answered %s" % (k, r), "queries": nq, "solver_s": time.time() - t0}
    # soundness side condition of the one-hole decomposition
    full = emit_docstring(mk_ir([SENT % i for i in range(nholes)]), docstring_format=style, word_wrap=False)
    import re as _re

    gaps = [g for g in _re.split("\x00\\d+\x00", full)[1:-1]]
    # a token can touch TWO holes only if the whole constant between them lies strictly inside the token (t = u . gap . v, u and v non-empty)
    spanning = [(g, t) for g in gaps for t in all_tokens if any(t[i:i + len(g)] == g for i in range(1, len(t) - len(g)))]
    if spanning:
        return {"status": "inconclusive", "detail": "the constant %r between two holes lies inside token %r: a token could span two holes; the "
                "one-hole decomposition does not cover that" % spanning[0], "queries": nq, "solver_s": time.time() - t0}
    return {"status": "discharged", "detail": "%d one-hole queries (hole <= %d chars over %r, containment expanded into prefix/suffix/equality "
            "constraints); no constant between two holes lies inside a token (so no token can touch two holes); detection chain of %d "
            "branches: all unsat" % (nq, maxlen, ALPHA, len(chain)), "queries": nq, "solver_s": time.time() - t0}
