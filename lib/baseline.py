"""Run the repository's pinned test-suite (guard OFF) and compare with /root/.vp/BASELINE.json stable_pass."""
import json, subprocess, sys, tempfile, os
import xml.etree.ElementTree as ET
b = json.load(open("/root/.vp/BASELINE.json"))
with tempfile.TemporaryDirectory() as d:
    x = os.path.join(d, "j.xml")
    env = dict(os.environ); env.pop("DOCTRANS_VERIF", None)
    subprocess.run(["/venv/bin/python", "-m", "pytest", "-q", "-p", "no:cacheprovider", "--timeout=900",
                    "--continue-on-collection-errors", "--junitxml=" + x], cwd="/repo", env=env,
                   stdout=subprocess.DEVNULL, stderr=subprocess.DEVNULL)
    passed = set()
    for tc in ET.parse(x).getroot().iter("testcase"):
        if not any(c.tag in ("failure", "error", "skipped") for c in tc):
            passed.add("%s::%s" % (tc.get("classname"), tc.get("name")))
missing = sorted(set(b["stable_pass"]) - passed)
print("baseline stable_pass=%d passed_now=%d missing=%d" % (len(b["stable_pass"]), len(passed), len(missing)))
for m in missing: print("  MISSING", m)
sys.exit(1 if missing else 0)
