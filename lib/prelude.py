"""
Harness prelude. Imported first by every harness (traced or replayed).

1. `meta` 1.0.2 is not Python-3.12 compatible: `import doctrans.conformance` raises
   KeyError('JUMP_IF_FALSE_OR_POP') the first time and succeeds the second time (its
   sub-modules survive in sys.modules).  The repository's own test-suite passes the same
   way (an earlier test module fails first).  We do the same, explicitly.
2. CrossHair 0.0.110 defect: SequenceConcatenation.__eq__ compares an empty list tail
   with an empty tuple tail and answers False, so ('"'+s+'"')[1:-1] == s is "refuted".
   Replace by element-wise comparison.  Only installed when crosshair is importable;
   replays run on plain CPython where this never matters.
"""
import sys

try:
    import meta  # noqa: F401
except Exception:  # pragma: no cover - environment defect, see docstring
    pass
try:
    import meta.asttools  # noqa: F401
except Exception:
    pass

try:
    from crosshair import simplestructs as _ss

    def _seqcat_eq(self, other):
        if self is other:
            return True
        if not hasattr(other, "__len__"):
            return False
        if self.__len__() != other.__len__():
            return False
        for a, b in zip(self, other):
            if a is b:
                continue
            if a != b:
                return False
        return True

    _ss.SequenceConcatenation.__eq__ = _seqcat_eq

    # measured for the evidence file: number of solver-decided branch points (edges of the symbolic execution tree)
    import atexit as _atexit
    from crosshair import statespace as _sp

    FORKS = [0]
    _orig_choose = _sp.StateSpace.choose_possible

    def _counting_choose(self, *a, **k):
        FORKS[0] += 1
        return _orig_choose(self, *a, **k)

    _sp.StateSpace.choose_possible = _counting_choose
    _atexit.register(lambda: sys.stderr.write("FORKS=%d\n" % FORKS[0]) if FORKS[0] else None)
    import lib.chfast  # noqa: F401  ASCII fast paths for casefold/isspace/isdigit/splitlines
except Exception:
    pass

import os as _os

# development aid (tools/seeded_run.sh --scratch): analyse a scratch worktree instead of /repo.  The registered commands never set it.
_alt = _os.environ.get("VERIF_REPO")
if _alt and "doctrans" not in sys.modules:
    sys.path.insert(0, _alt)
elif "/repo" not in sys.path:
    sys.path.insert(0, "/repo")
