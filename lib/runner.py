"""
Obligation scheduler / verdict parser / replayer / evidence writer.

  python -m lib.runner <Cxx> quick|thorough
  python -m lib.runner replay <file>

Exit status: 0 no unlisted violation; 1 VIOLATION (reproduced on plain CPython against /repo);
3 harness error (pre-flight failed, crosshair could not import the harness, ...).
"""
import ast
import concurrent.futures as cf
import hashlib
import importlib
import json
import os
import re
import shutil
import subprocess
import sys
import time

ROOT = "/verif"
PY = ROOT + "/.venv/bin/python"
CROSSHAIR = ROOT + "/.venv/bin/crosshair"
WORK = ROOT + "/.work"
NPROC = int(os.environ.get("VERIF_JOBS", "16"))

sys.path.insert(0, ROOT)


# --------------------------------------------------------------------------- helpers
def _env():
    e = dict(os.environ)
    e["PYTHONDONTWRITEBYTECODE"] = "1"
    e["PYTHONHASHSEED"] = "0"
    e.pop("DOCTRANS_LINE_LENGTH", None)
    if e.get("VERIF_REPO"):
        e["PYTHONPATH"] = e["VERIF_REPO"]  # scratch worktree first (development aid only)
    return e


def concrete(module, jobs, tier="quick", seed=0, timeout=600):
    p = subprocess.run(
        [PY, ROOT + "/lib/concrete.py"],
        input=json.dumps({"module": module, "jobs": jobs, "tier": tier, "seed": seed}),
        capture_output=True,
        text=True,
        timeout=timeout,
        env=_env(),
        cwd=ROOT,
    )
    if p.returncode != 0:
        raise RuntimeError("concrete evaluator failed:\n" + p.stderr[-3000:])
    # the harness may print; the JSON is the last line
    return json.loads(p.stdout.strip().splitlines()[-1])


def load_known():
    f = ROOT + "/known_findings.json"
    if not os.path.exists(f):
        return []
    return json.load(open(f))["findings"]


def _wd(prop):
    """scratch directory of THIS run (unique per process, so a quick and a thorough run of one property can overlap)"""
    return os.path.join(WORK, "%s_%d" % (prop, os.getpid()))


def gen_file(prop, ob, pres, twin, extra_pre=()):
    d = _wd(prop)
    os.makedirs(d, exist_ok=True)
    fn = os.path.join(d, "%s%s.py" % (ob.name, "_twin" if twin else ""))
    sig = ", ".join("%s: %s" % (n, t) for n, t in ob.params)
    lines = [
        "import sys, atexit",
        "sys.path.insert(0, %r)" % ROOT,
        "import lib.prelude",
        "import harness.%s as H" % prop,
        "_N = [0]",
        "atexit.register(lambda: sys.stderr.write('PATHS=%d\\n' % _N[0]))",
        "def h(%s) -> bool:" % sig,
        '    """',
    ]
    for p in list(pres) + list(extra_pre):
        lines.append("    pre: " + p)
    if ob.raises and not twin:
        lines.append("    raises: " + ob.raises)
    lines.append("    post: not _" if twin else "    post: _")
    lines.append('    """')
    lines.append("    _N[0] += 1")
    target_line = len(lines)
    lines.append("    return bool(%s)" % ob.body)
    with open(fn, "w") as f:
        f.write("\n".join(lines) + "\n")
    return fn, target_line


CALL_RE = re.compile(r"when calling h\(")


def parse_call_args(text):
    """extract the literal argument list of the reported h(...) call"""
    m = CALL_RE.search(text)
    if not m:
        return None
    start = m.end() - 2  # at 'h('
    s = text[start:]
    for i, ch in enumerate(s):
        if ch == ")":
            cand = s[: i + 1]
            try:
                node = ast.parse(cand, mode="eval").body
            except SyntaxError:
                continue
            if isinstance(node, ast.Call):
                try:
                    args = [ast.literal_eval(a) for a in node.args]
                    kw = {k.arg: ast.literal_eval(k.value) for k in node.keywords}
                except Exception:
                    return None
                return args, kw
    return None


def run_crosshair(fn, line, timeout, path_timeout):
    t0 = time.time()
    cmd = [
        CROSSHAIR,
        "check",
        "--report_all",
        "--per_condition_timeout",
        str(timeout),
        "--per_path_timeout",
        str(path_timeout),
        "%s:%d" % (fn, line),
    ]
    try:
        p = subprocess.run(
            cmd, capture_output=True, text=True, timeout=timeout + 90, env=_env(), cwd=ROOT
        )
        out, err, rc = p.stdout, p.stderr, p.returncode
    except subprocess.TimeoutExpired as e:
        out = (e.stdout or b"").decode() if isinstance(e.stdout, bytes) else (e.stdout or "")
        err = "TIMEOUT"
        rc = -9
    wall = time.time() - t0
    paths = 0
    m = re.search(r"PATHS=(\d+)", err or "")
    if m:
        paths = int(m.group(1))
    forks = 0
    m = re.search(r"FORKS=(\d+)", err or "")
    if m:
        forks = int(m.group(1))
    if rc == 2 or "Could not import" in out:
        return {"status": "harness_error", "raw": (out + err)[-3000:], "wall": wall, "paths": paths, "forks": forks}
    if "error:" in out:
        parsed = parse_call_args(out)
        msg = out.split("error:", 1)[1].strip()
        kind = "false" if msg.startswith("false when calling") else "exception"
        return {
            "status": "cex",
            "kind": kind,
            "args": parsed,
            "msg": msg[:600],
            "wall": wall,
            "paths": paths,
            "forks": forks,
        }
    if "Confirmed over all paths" in out:
        return {"status": "confirmed", "wall": wall, "paths": paths, "forks": forks}
    if "Unable to meet precondition" in out:
        return {"status": "inconclusive", "why": "unable to meet precondition", "wall": wall, "paths": paths, "forks": forks}
    if "Not confirmed" in out:
        return {"status": "inconclusive", "why": "not confirmed (timeout/unknown)", "wall": wall, "paths": paths, "forks": forks}
    return {"status": "inconclusive", "why": "no verdict: " + (out + err)[-300:], "wall": wall, "paths": paths, "forks": forks}


def args_for(ob, parsed):
    args, kw = parsed
    names = [n for n, _ in ob.params]
    vals = list(args)
    for n in names[len(vals):]:
        vals.append(kw[n])
    return vals


# --------------------------------------------------------------------------- one obligation
def do_ob(prop, module, ob, pres, tier):
    """returns a result dict for one CrossHair obligation (main + twin)"""
    res = {"name": ob.name, "kind": ob.kind, "bounds": ob.bounds, "spurious": 0, "paths": 0, "solver_s": 0.0, "forks": 0, "replays": 0}
    names = [n for n, _ in ob.params]
    extra = []
    twin_future = None
    with cf.ThreadPoolExecutor(max_workers=2) as tp:
        if ob.twin:
            tfn, tline = gen_file(prop, ob, pres, True)
            twin_future = tp.submit(run_crosshair, tfn, tline, min(ob.timeout, 120), ob.path_timeout)
        for attempt in range(4):
            fn, line = gen_file(prop, ob, pres, False, extra)
            r = run_crosshair(fn, line, ob.timeout, ob.path_timeout)
            res["paths"] += r.get("paths", 0)
            res["forks"] += r.get("forks", 0)
            res["solver_s"] += r.get("wall", 0.0)
            if r["status"] != "cex":
                break
            if not r.get("args"):
                r = {"status": "inconclusive", "why": "counterexample not parseable: " + r.get("msg", "")}
                break
            vals = args_for(ob, r["args"])
            rep = concrete(
                module, [{"kind": "eval", "params": names, "pre": pres, "body": ob.body, "args": vals}]
            )[0]
            res["replays"] += 1
            if rep["pre_ok"] and (rep["exc"] or rep["result"] is False):
                r["reproduced"] = True
                r["vals"] = vals
                r["replay_detail"] = rep["exc"] or "oracle returned False"
                break
            if getattr(ob, "fallback", ""):
                fb = concrete(module, [{"kind": "eval", "params": [], "pre": [], "body": "H._fallback_box(%s)" % ob.fallback, "args": []}],
                              timeout=1800)[0]
                found = fb.get("found")
                if found:
                    rep2 = concrete(module, [{"kind": "eval", "params": names, "pre": pres, "body": ob.body, "args": found}])[0]
                    res["replays"] += 1
                    if rep2["pre_ok"] and (rep2["exc"] or rep2["result"] is False):
                        r = {"status": "cex", "reproduced": True, "vals": found, "msg": "solver path failed through state left by an earlier "
                             "path; self-contained arguments found by the fresh-interpreter search", "args": (found, {}),
                             "replay_detail": rep2["exc"] or "oracle returned False"}
                        break
            # engine-spurious: verified concretely just now; exclude this point and retry
            res["spurious"] += 1
            extra.append("(%s) != %r" % (", ".join(names) + ("," if len(names) == 1 else ""), tuple(vals)))
            r = {"status": "inconclusive", "why": "non-reproducing counterexample(s) %r" % (vals,)}
        res["main"] = r
        if twin_future is not None:
            t = twin_future.result()
            res["paths"] += t.get("paths", 0)
            res["forks"] += t.get("forks", 0)
            res["solver_s"] += t.get("wall", 0.0)
            res["twin"] = t["status"] + (":" + t.get("kind", "") if t["status"] == "cex" else "")
    if r["status"] == "cex" and r.get("reproduced"):
        res["status"] = "violated"
    elif r["status"] == "harness_error":
        res["status"] = "harness_error"
        res["why"] = r["raw"]
    elif r["status"] == "confirmed":
        if ob.twin and not res.get("twin", "").startswith("cex:false"):
            res["status"] = "inconclusive"
            res["why"] = "reachability twin not refuted (%s)" % res.get("twin")
        else:
            res["status"] = "discharged"
    else:
        res["status"] = "inconclusive"
        res["why"] = r.get("why", "")
    return res


def do_zob(prop, module, ob, tier, seed):
    t0 = time.time()
    try:
        r = concrete(module, [{"kind": "zrun", "name": ob.name}], tier, seed, timeout=3600)[0]
    except Exception as e:
        r = {"status": "inconclusive", "detail": "runner: %r" % (e,)}
    res = {
        "name": ob.name,
        "kind": "Z",
        "bounds": ob.bounds,
        "spurious": 0,
        "paths": int(r.get("queries", 1)),
        "solver_s": float(r.get("solver_s", time.time() - t0)),
        "detail": r.get("detail", ""),
    }
    st = r.get("status")
    if st == "violated":
        rep = {"reproduced": False, "detail": "no replay function"}
        if ob.replay is not None:
            rep = concrete(module, [{"kind": "zreplay", "name": ob.name, "cex": r.get("cex")}], tier, seed)[0]
        if rep.get("reproduced"):
            res["status"] = "violated"
            res["main"] = {"vals": r.get("cex"), "replay_detail": rep.get("detail"), "msg": r.get("detail", "")}
        else:
            res["status"] = "inconclusive"
            res["why"] = "solver model did not reproduce on CPython: %r (%s)" % (r.get("cex"), rep.get("detail"))
            res["spurious"] = 1
    elif st == "discharged":
        res["status"] = "discharged"
    else:
        res["status"] = "inconclusive"
        res["why"] = r.get("detail", "")
    return res


# --------------------------------------------------------------------------- main
def check(prop, tier):
    t0 = time.time()
    seed = int(os.environ.get("VERIF_SEED", "0") or 0)
    module = "harness." + prop
    shutil.rmtree(_wd(prop), ignore_errors=True)
    os.makedirs(_wd(prop), exist_ok=True)
    H = importlib.import_module(module)
    obs = H.obligations(tier, seed)
    only = os.environ.get("VERIF_ONLY")  # development aid: substring filter on obligation names
    if only:
        obs = [o for o in obs if any(t in o.name for t in only.split(","))]
    known = [k for k in load_known() if k["property"] == prop or (isinstance(k["property"], list) and prop in k["property"])]
    active = {k["id"]: k for k in known if k.get("status", "open") == "open"}

    # ---- known-finding witnesses (concrete, against the real code)
    kf_lines = []
    stale = []
    for k in active.values():
        w = k["witness"]
        rep = concrete(
            w.get("module", module),
            [{"kind": "eval", "params": w["params"], "pre": [], "body": w["body"], "args": w["args"]}],
        )[0]
        if rep["exc"] and rep["exc"].startswith(("AttributeError: module", "NameError", "ImportError", "ModuleNotFoundError")):
            print("harness-error: witness of %s could not be evaluated: %s" % (k["id"], rep["exc"]))
            return 3
        if rep["exc"] or rep["result"] is False:
            kf_lines.append("KNOWN-FINDING: property=%s %s [%s]" % (prop, k["what"], k["id"]))
        else:
            stale.append(k["id"])
            print("note: known finding %s no longer reproduces on this tree (witness passes)" % k["id"])
    for l in kf_lines:
        print(l)
    sys.stdout.flush()

    # ---- pre-flight: every witness satisfies the pre (incl. KF exclusions) and the body is True
    ob_pres = {}
    jobs = []
    act = repr(tuple(sorted(active)))
    for o in obs:
        if getattr(o, "body", None):
            o.body = o.body.replace("{ACTIVE}", act)
    skipped = [o for o in obs if any(k in active for k in getattr(o, "skip_kf", []))]
    obs = [o for o in obs if o not in skipped]
    H._skipped = skipped
    for o in skipped:
        print("  %-34s excluded (whole cell is known finding %s)" % (o.name, [k for k in o.skip_kf if k in active]))
    chobs = [o for o in obs if o.kind != "Z"]
    for ob in chobs:
        pres = list(ob.pre) + ["not (%s)" % pred for kid, pred in ob.kf if kid in active]
        ob_pres[ob.name] = pres
        jobs.append(
            {"kind": "eval", "params": [n for n, _ in ob.params], "pre": pres, "body": ob.body, "args": list(ob.witness)}
        )
    pre = concrete(module, jobs) if jobs else []
    # A witness that satisfies the pre but makes the oracle False (or raises) on the real code is a reproduced concrete
    # counterexample (every witness passes on the unchanged tree): report it as a violation of that obligation and do
    # not spend solver time on it.  A witness that fails its own precondition is a harness error.
    results = []
    pre_viol = {}
    for ob, r in zip(chobs, pre):
        if not r["pre_ok"]:
            print("harness-error: pre-flight witness of %s does not satisfy its precondition: %s" % (ob.name, json.dumps(r)[:600]))
            write_evidence(prop, tier, seed, H, obs, [], t0, kf_lines, note="pre-flight failed")
            return 3
        if r["result"] is not True:
            pre_viol[ob.name] = r
            results.append({"name": ob.name, "kind": ob.kind, "bounds": ob.bounds, "spurious": 0, "paths": 1, "solver_s": 0.0,
                            "status": "violated",
                            "main": {"vals": list(ob.witness), "msg": "concrete pre-flight witness (no solver needed)",
                                     "replay_detail": r["exc"] or "oracle returned False"}})
    obs = [o for o in obs if o.name not in pre_viol]

    # ---- fresh-process reference values (harness.prepare runs untraced and may spawn sub-processes; traced code only reads them)
    if hasattr(H, "prepare"):
        prep = concrete(module, [{"kind": "prepare"}], tier, seed, timeout=900)[0]
        pf = os.path.join(_wd(prop), "prepared.json")
        json.dump(prep, open(pf, "w"))
        os.environ["VERIF_PREPARED"] = pf

    # ---- solver runs
    with cf.ThreadPoolExecutor(max_workers=max(1, NPROC // 2)) as pool:
        futs = {}
        for ob in obs:
            if ob.kind == "Z":
                futs[pool.submit(do_zob, prop, module, ob, tier, seed)] = ob
            else:
                futs[pool.submit(do_ob, prop, module, ob, ob_pres[ob.name], tier)] = ob
        for f in cf.as_completed(futs):
            ob = futs[f]
            try:
                r = f.result()
            except Exception as e:
                r = {"name": ob.name, "status": "harness_error", "why": repr(e), "kind": ob.kind, "bounds": ob.bounds,
                     "paths": 0, "solver_s": 0.0, "spurious": 0}
            results.append(r)
            print(
                "  %-34s %-12s paths=%-5d %.0fs %s"
                % (r["name"], r["status"], r.get("paths", 0), r.get("solver_s", 0.0), (r.get("why") or "")[:160].replace("\n", " "))
            )
            sys.stdout.flush()

    # ---- verdicts
    rc = 0
    viol = 0
    obmap = {o.name: o for o in list(obs) + [o for o in chobs if o.name in pre_viol]}
    for r in results:
        if r["status"] == "violated":
            viol += 1
            ob = obmap[r["name"]]
            payload = {
                "property": prop,
                "obligation": r["name"],
                "module": module,
                "tier": tier,
                "args": r["main"].get("vals"),
                "solver_message": r["main"].get("msg"),
                "replay_detail": r["main"].get("replay_detail"),
                "bounds": r["bounds"],
            }
            if ob.kind != "Z":
                payload.update(
                    {"params": [n for n, _ in ob.params], "pre": ob_pres[ob.name], "body": ob.body}
                )
            h = hashlib.sha1(json.dumps(payload, sort_keys=True, default=str).encode()).hexdigest()[:8]
            path = "%s/replays/%s_%s_%s.json" % (ROOT, prop, r["name"], h)
            os.makedirs(ROOT + "/replays", exist_ok=True)
            json.dump(payload, open(path, "w"), indent=1, default=str)
            print("  counterexample %s args=%r : %s" % (r["name"], payload["args"], payload["replay_detail"]))
            print("VIOLATION property=%s replay=%s" % (prop, path))
            rc = 1
    herr = [r for r in results if r["status"] == "harness_error"]
    if herr and rc == 0:
        for r in herr:
            print("harness-error: %s: %s" % (r["name"], (r.get("why") or "")[-800:]))
        rc = 3
    write_evidence(prop, tier, seed, H, list(obmap.values()), results, t0, kf_lines, violations=viol)
    n_dis = sum(1 for r in results if r["status"] == "discharged")
    n_inc = sum(1 for r in results if r["status"] == "inconclusive")
    print(
        "%s %s: obligations=%d discharged=%d inconclusive=%d violated=%d known_findings=%d wall=%.0fs"
        % (prop, tier, len(results), n_dis, n_inc, viol, len(kf_lines), time.time() - t0)
    )
    shutil.rmtree(_wd(prop), ignore_errors=True)
    return rc


def write_evidence(prop, tier, seed, H, obs, results, t0, kf_lines, violations=0, note=""):
    n_dis = sum(1 for r in results if r["status"] == "discharged")
    n_inc = sum(1 for r in results if r["status"] == "inconclusive")
    paths = sum(r.get("paths", 0) for r in results)
    forks = sum(r.get("forks", 0) for r in results)
    # concrete executions of the real code outside the engine: one witness per CrossHair obligation (pre-flight), every
    # known-finding witness, every counterexample replay
    traces = len([o for o in obs if getattr(o, "kind", "") != "Z"]) + len(kf_lines) + sum(r.get("replays", 0) for r in results)
    funcs = sorted({f for o in obs for f in getattr(o, "funcs", [])} | set(getattr(H, "FUNCS", [])))
    obmap = {o.name: o for o in obs}
    samples = []
    for r in sorted(results, key=lambda r: r["name"])[:60]:
        o = obmap[r["name"]]
        s = {
            "obligation": r["name"],
            "kind": {"S": "symbolic", "F": "finite solver-enumerated", "Z": "direct z3 query"}.get(r.get("kind"), r.get("kind")),
            "verdict": r["status"],
            "bounds": r.get("bounds"),
            "paths_or_queries": r.get("paths", 0),
            "solver_s": round(r.get("solver_s", 0.0), 1),
        }
        if getattr(o, "params", None) is not None and o.kind != "Z":
            s["symbolic_inputs"] = ["%s: %s" % p for p in o.params]
            s["pre"] = o.pre
            s["example_input"] = list(o.witness)
        if r.get("why"):
            s["why"] = r["why"][:300]
        if r.get("detail"):
            s["detail"] = r["detail"][:300]
        samples.append(s)
    ev = {
        "property_id": prop,
        "tier": tier,
        "seed": seed,
        "level": "model_checking",
        "coverage": {
            "states": max(paths, 1),
            "transitions": max(forks, 1),
            "traces_validated_against_impl": traces,
            "states_transitions_meaning": "states = symbolic execution paths explored by CrossHair over the real code (each path is the set of all "
            "inputs satisfying its path condition; direct solver obligations count their queries); transitions = solver-decided branch points "
            "(StateSpace.choose_possible calls, counted by lib/prelude.py) along those paths; traces_validated_against_impl = concrete untraced runs "
            "of the real code (pre-flight witnesses, known-finding witnesses, counterexample replays)",
            "obligations": len(results),
            "discharged": n_dis,
            "inconclusive": n_inc,
            "spurious_counterexamples_discarded": sum(r.get("spurious", 0) for r in results),
            "evaluations": max(paths, 1) if results else 0,
            "distinct_nontrivial": n_dis,
            "rule": "one obligation = one bounded symbolic-execution query (CrossHair/z3 over the real doctrans functions) or one "
            "direct z3 query; 'evaluations' counts symbolic paths executed (each path covers every input satisfying its path "
            "condition) plus solver queries; an obligation counts as distinct-nontrivial only if the solver exhausted all paths "
            "(Confirmed over all paths / unsat) AND its reachability twin (post negated) was refuted AND its concrete witness passed",
            "samples": samples or [{"note": note or "no obligations ran"}],
            "functions_encoded": funcs,
            "solver_time_s": round(sum(r.get("solver_s", 0.0) for r in results), 1),
            "known_findings_reported": kf_lines,
            "obligations_excluded_by_known_finding": [o.name for o in getattr(H, "_skipped", [])],
            "exhaustive": False,
            "explanation": "bounded symbolic model checking; verdicts are relative to the bounds listed per obligation",
        },
        "assumptions": list(getattr(H, "ASSUMPTIONS", []))
        + [
            "CrossHair 0.0.110 models of str/int/list/dict + z3 5.1.0 are trusted for 'Confirmed'; every counterexample is replayed on plain CPython before it is reported",
            "lib/prelude.py: SequenceConcatenation.__eq__ shim (CrossHair defect) and the double import of third-party `meta`",
            "inconclusive obligations are neither successes nor violations",
        ],
        "wall_s": round(time.time() - t0, 1),
        "violations": violations,
    }
    os.makedirs(ROOT + "/evidence", exist_ok=True)
    json.dump(ev, open("%s/evidence/%s.json" % (ROOT, prop), "w"), indent=1)


def replay(path):
    p = json.load(open(path))
    if "body" in p:
        rep = concrete(
            p["module"],
            [{"kind": "eval", "params": p["params"], "pre": p["pre"], "body": p["body"], "args": p["args"]}],
        )[0]
        print(json.dumps(rep, indent=1))
        bad = rep["pre_ok"] and (rep["exc"] or rep["result"] is False)
    else:
        rep = concrete(p["module"], [{"kind": "zreplay", "name": p["obligation"], "cex": p["args"]}], p.get("tier", "quick"))[0]
        print(json.dumps(rep, indent=1))
        bad = rep.get("reproduced")
    print("REPRODUCED" if bad else "not reproduced")
    return 1 if bad else 0


if __name__ == "__main__":
    if len(sys.argv) >= 3 and sys.argv[1] == "replay":
        sys.exit(replay(sys.argv[2]))
    if len(sys.argv) < 3:
        print(__doc__)
        sys.exit(3)
    sys.exit(check(sys.argv[1], sys.argv[2]))
