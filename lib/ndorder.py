"""
Solver-ordered sets: Python specifies no iteration order for sets, and with string hashing randomised per process
(PYTHONHASHSEED) every permutation is a legal environment.  The shim makes that order a solver variable:
  * NDOrderedDict.keys() returns a view whose  & | - ^  results iterate in an order picked by PICKS (symbolic ints);
  * NDSet / NDFrozenSet iterate in a PICKS-chosen order.
Harnesses bind these over `OrderedDict`, `set`, `frozenset` in the doctrans module namespaces.
`scan_sites()` lists iteration sites over set-valued expressions in the current doctrans source, so that a site the name-shadowing
cannot intercept (a set display / comprehension) is reported instead of silently passed.
"""
import ast
import glob
import os
from collections import OrderedDict
from collections.abc import KeysView

PICKS = [()]


def _ordered(items):
    rest = list(items)
    picks = PICKS[0]
    k = 0
    out = []
    while rest:
        i = picks[k] if k < len(picks) else 0
        k += 1
        if not (0 <= i < len(rest)):
            i = 0
        out.append(rest.pop(i))
    return out


class AnyOrderSet:
    def __init__(self, items):
        self.items = list(items)

    def __iter__(self):
        return iter(_ordered(self.items))

    def __contains__(self, x):
        return x in self.items

    def __len__(self):
        return len(self.items)

    def __bool__(self):
        return bool(self.items)


class NDKeys(KeysView):
    def __and__(self, other):
        return AnyOrderSet([k for k in self._mapping if k in other])

    def __sub__(self, other):
        return AnyOrderSet([k for k in self._mapping if k not in other])

    def __or__(self, other):
        return AnyOrderSet(list(self._mapping) + [k for k in other if k not in self._mapping])

    def __xor__(self, other):
        return AnyOrderSet([k for k in self._mapping if k not in other] + [k for k in other if k not in self._mapping])

    __rand__, __ror__ = __and__, __or__


class NDOrderedDict(OrderedDict):
    def keys(self):
        return NDKeys(self)


class NDFrozenSet(frozenset):
    def __iter__(self):
        return iter(_ordered(sorted(frozenset.__iter__(self), key=repr)))


class NDSet(set):
    def __iter__(self):
        return iter(_ordered(sorted(set.__iter__(self), key=repr)))


def install(modules):
    saved = []
    for m in modules:
        for name, val in (("OrderedDict", NDOrderedDict), ("frozenset", NDFrozenSet), ("set", NDSet)):
            if name == "OrderedDict" and name not in m.__dict__:
                continue
            saved.append((m, name, name in m.__dict__, m.__dict__.get(name)))
            setattr(m, name, val)

    def undo():
        for m, name, had, old in saved:
            if had:
                setattr(m, name, old)
            else:
                delattr(m, name)

    return undo


_SETOPS = (ast.BitAnd, ast.Sub, ast.BitOr, ast.BitXor)


def _is_keys_call(n):
    return isinstance(n, ast.Call) and isinstance(n.func, ast.Attribute) and n.func.attr == "keys"


def _setish(n):
    """'display' (cannot be intercepted), 'name' (set()/frozenset() call - intercepted by shadowing), 'keys' (keys-view algebra -
    intercepted through NDOrderedDict), or None"""
    if isinstance(n, (ast.Set, ast.SetComp)):
        return "display"
    if isinstance(n, ast.Call) and isinstance(n.func, ast.Name) and n.func.id in ("set", "frozenset"):
        return "name"
    if isinstance(n, ast.BinOp) and isinstance(n.op, _SETOPS):
        l, r = _setish(n.left), _setish(n.right)
        if _is_keys_call(n.left) or _is_keys_call(n.right):
            return "keys"
        if l or r:
            return "display" if "display" in (l, r) else (l or r)
    return None


def scan_sites(root=None):
    root = root or os.path.join(os.environ.get("VERIF_REPO") or "/repo", "doctrans")
    """[(file, line, kind, source)] for every `for` / comprehension / iterating call whose iterable is set-valued"""
    out = []
    for f in sorted(glob.glob(os.path.join(root, "*.py"))):
        src = open(f).read()
        tree = ast.parse(src)
        bound = {}
        for n in ast.walk(tree):
            if isinstance(n, ast.Assign) and len(n.targets) == 1 and isinstance(n.targets[0], ast.Name) and _setish(n.value):
                bound[n.targets[0].id] = _setish(n.value)
        # a set built at import time (module level) and handed on as a call argument: the callee may iterate it, and the shim cannot
        # replace an object that already exists - not interceptable
        top = {n.targets[0].id for n in tree.body if isinstance(n, ast.Assign) and len(n.targets) == 1
               and isinstance(n.targets[0], ast.Name) and _setish(n.value)}
        for n in ast.walk(tree):
            if isinstance(n, ast.Call):
                for a in list(n.args) + [k.value for k in n.keywords]:
                    for sub in ast.walk(a):
                        if isinstance(sub, ast.Name) and sub.id in top and not (isinstance(n.func, ast.Name) and n.func.id in ("len", "isinstance", "sorted")):
                            out.append((os.path.basename(f), sub.lineno, "display", "module-level set %s passed to %s" % (sub.id, ast.unparse(n.func)[:40])))
        for n in ast.walk(tree):
            its = []
            if isinstance(n, (ast.For, ast.AsyncFor)):
                its.append(n.iter)
            elif isinstance(n, ast.comprehension):
                its.append(n.iter)
            elif isinstance(n, ast.Call) and isinstance(n.func, ast.Name) and n.func.id in (
                    "map", "filter", "list", "tuple", "sorted", "next", "iter", "enumerate", "zip", "join", "deque", "chain"):
                its.extend(n.args)
            elif isinstance(n, ast.Call) and isinstance(n.func, ast.Attribute) and n.func.attr in ("join", "extend", "update", "from_iterable"):
                its.extend(n.args)
            for it in its:
                k = _setish(it) or (bound.get(it.id) if isinstance(it, ast.Name) else None)
                if k:
                    out.append((os.path.basename(f), it.lineno, k, ast.unparse(it)[:80]))
    return out
