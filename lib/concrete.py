"""
Concrete (plain CPython, untraced) evaluation of harness bodies.  Used for
  * the vacuity pre-flight (witness must satisfy every `pre` and make the body True),
  * replay of solver counterexamples against the real code,
  * known-finding witnesses,
  * direct z3 obligations (ZOb.run / ZOb.replay), which build their query from /repo's source.

stdin: JSON {"module": "harness.C17", "jobs": [ {"kind": "eval", "params": [...names], "pre": [...], "body": "...", "args": [...]} |
                                                {"kind": "zrun", "name": ob} | {"kind": "zreplay", "name": ob, "cex": ...} ]}
stdout: JSON list of results.
"""
import importlib
import json
import os
import sys
import time
import traceback

sys.path.insert(0, "/verif")
import lib.prelude  # noqa: E402,F401


def _eval_job(H, job):
    env = {"H": H}
    env.update(dict(zip(job["params"], job["args"])))
    out = {"pre_ok": True, "result": None, "exc": None}
    for p in job.get("pre", []):
        try:
            if not eval(p, env):
                out["pre_ok"] = False
                out["pre_failed"] = p
                return out
        except Exception as e:  # a precondition that raises is a harness error
            out["pre_ok"] = False
            out["pre_failed"] = "%s raised %r" % (p, e)
            return out
    try:
        r = eval(job["body"], env)
        if isinstance(r, dict) and "found" in r:
            out["found"] = r["found"]
        out["result"] = bool(r)
    except Exception as e:
        out["exc"] = "%s: %s" % (type(e).__name__, e)
        out["tb"] = traceback.format_exc()[-1500:]
    return out


def main():
    req = json.load(sys.stdin)
    H = importlib.import_module(req["module"])
    res = []
    zobs = None
    for job in req["jobs"]:
        if job["kind"] == "eval":
            res.append(_eval_job(H, job))
        elif job["kind"] == "prepare":
            res.append(H.prepare(req.get("tier", "quick")) if hasattr(H, "prepare") else None)
        else:
            if zobs is None:
                zobs = {
                    o.name: o
                    for o in H.obligations(req.get("tier", "quick"), req.get("seed", 0))
                    if getattr(o, "kind", "") == "Z"
                }
            ob = zobs[job["name"]]
            try:
                if job["kind"] == "zrun":
                    t = time.time()
                    r = ob.run()
                    r.setdefault("solver_s", time.time() - t)
                    res.append(r)
                else:
                    ok, detail = ob.replay(job["cex"])
                    res.append({"reproduced": bool(ok), "detail": detail})
            except Exception as e:
                res.append(
                    {
                        "status": "inconclusive",
                        "detail": "harness exception %s: %s\n%s"
                        % (type(e).__name__, e, traceback.format_exc()[-1200:]),
                    }
                )
    json.dump(res, sys.stdout)


if __name__ == "__main__":
    main()
