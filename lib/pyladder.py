"""
AST -> z3 translator for the coercion ladder at the end of defaults_utils.extract_default (C17, direct solver obligation).

The ladder (an if/elif/else chain on the scanned default text, located in the function's *current* AST) decides which Python
type a default read from prose gets.  It is translated into a z3 term kind(v) in {int, bool, float, str} over a z3 String v,
using a small table of string-predicate models (isdecimal -> [0-9]+, slicing, membership in a frozenset of literals, success of
float() -> Python's float grammar over ASCII), and asked, with REGULAR LANGUAGES OF RENDERINGS (what str(int), repr(float),
str(bool) can produce), questions of the form "is some rendering of kind K classified as something else?" - for strings of ANY
length.  unsat = holds; sat = a concrete text, replayed through the real extract_default.
Unknown constructs in the ladder make the obligation inconclusive (never passed).
The predicate table is cross-checked against CPython on generated strings on every run (ASCII only; Unicode decimals are
outside the claim).
"""
import ast
import inspect
import itertools
import random
import re as pyre
import time

import z3


class Untranslatable(Exception):
    pass


# ------------------------------------------------------------------------------------------------ regular languages
def _rng(a, b):
    return z3.Range(a, b)


DIGIT = _rng("0", "9")
DIGITS = z3.Plus(DIGIT)
NZ = _rng("1", "9")


def _lit(s):
    return z3.Re(s)


def _ci(word):
    return z3.Concat(*[z3.Union(_lit(c.lower()), _lit(c.upper())) for c in word]) if len(word) > 1 else z3.Union(_lit(word.lower()), _lit(word.upper()))


def L_int():
    """str(int): -?(0|[1-9][0-9]*)"""
    return z3.Concat(z3.Option(_lit("-")), z3.Union(_lit("0"), z3.Concat(NZ, z3.Star(DIGIT))))


def L_float_repr():
    """repr(float): -?(D+ '.' D+ (e[+-]D+)? | D+ e[+-]D+ | inf | nan)"""
    exp = z3.Concat(_lit("e"), z3.Union(_lit("+"), _lit("-")), DIGITS)
    body = z3.Union(z3.Concat(DIGITS, _lit("."), DIGITS, z3.Option(exp)), z3.Concat(DIGITS, exp), _lit("inf"), _lit("nan"))
    return z3.Concat(z3.Option(_lit("-")), body)


def L_bool():
    return z3.Union(_lit("True"), _lit("False"))


def float_parsable():
    """what CPython's float(str) accepts, ASCII: ws* [+-]? (digitpart ('.' digitpart?)? | '.' digitpart) ([eE][+-]?digitpart)? | inf(inity)? | nan, ws*"""
    ws = z3.Star(z3.Union(*[_lit(c) for c in " \t\n\r\x0b\x0c"]))
    dp = z3.Concat(DIGIT, z3.Star(z3.Concat(z3.Option(_lit("_")), DIGIT)))
    mant = z3.Union(z3.Concat(dp, z3.Option(z3.Concat(_lit("."), z3.Option(dp)))), z3.Concat(_lit("."), dp))
    exp = z3.Concat(z3.Union(_lit("e"), _lit("E")), z3.Option(z3.Union(_lit("+"), _lit("-"))), dp)
    num = z3.Concat(mant, z3.Option(exp))
    special = z3.Union(z3.Concat(_ci("inf"), z3.Option(_ci("inity"))), _ci("nan"))
    return z3.Concat(ws, z3.Option(z3.Union(_lit("+"), _lit("-"))), z3.Union(num, special), ws)


PY_FLOAT_RE = pyre.compile(
    r"[ \t\n\r\x0b\x0c]*[+-]?((\d(_?\d)*(\.(\d(_?\d)*)?)?|\.\d(_?\d)*)([eE][+-]?\d(_?\d)*)?|[iI][nN][fF]([iI][nN][iI][tT][yY])?|[nN][aA][nN])[ \t\n\r\x0b\x0c]*",
    pyre.ASCII,
)


# ------------------------------------------------------------------------------------------------ predicate translation
ANY = z3.AllChar(z3.ReSort(z3.StringSort()))
SIGMA_STAR = z3.Star(ANY)
EMPTY_LANG = z3.Empty(z3.ReSort(z3.StringSort()))


def lang(node):
    """python boolean expression over the name `default`  ->  the regular language (z3 regex) of the strings that satisfy it"""
    if isinstance(node, ast.BoolOp):
        parts = [lang(x) for x in node.values]
        out = parts[0]
        for p in parts[1:]:
            out = z3.Union(out, p) if isinstance(node.op, ast.Or) else z3.Intersect(out, p)
        return out
    if isinstance(node, ast.UnaryOp) and isinstance(node.op, ast.Not):
        return z3.Complement(lang(node.operand))
    if isinstance(node, ast.Call) and isinstance(node.func, ast.Attribute) and node.func.attr in ("isdecimal", "isdigit") and not node.args:
        return _lift(node.func.value, DIGITS)
    if isinstance(node, ast.Compare) and len(node.ops) == 1 and isinstance(node.ops[0], ast.In):
        lits = _literal_set(node.comparators[0])
        inner = EMPTY_LANG
        for x in lits:
            inner = z3.Union(inner, _lit(x)) if x != "" else z3.Union(inner, z3.Re(""))
        return _lift(node.left, inner)
    raise Untranslatable(ast.dump(node)[:120])


def _lift(str_node, inner):
    """language of `default` such that the string expression `str_node` (default, default[:k], default[k:]) lies in `inner`"""
    if isinstance(str_node, ast.Name) and str_node.id == "default":
        return inner
    if isinstance(str_node, ast.Subscript) and isinstance(str_node.value, ast.Name) and str_node.value.id == "default" \
            and isinstance(str_node.slice, ast.Slice) and str_node.slice.step is None:
        lo, hi = str_node.slice.lower, str_node.slice.upper
        if lo is None and isinstance(hi, ast.Constant) and hi.value == 1:
            # default[:1] in inner  <=>  (default == "" and "" in inner) or default = c + rest with c in inner (inner restricted to 1-char words)
            one = z3.Intersect(inner, ANY)
            return z3.Union(z3.Intersect(inner, z3.Re("")), z3.Concat(one, SIGMA_STAR))
        if hi is None and isinstance(lo, ast.Constant) and lo.value == 1:
            # default[1:] in inner  <=>  default == "" and "" in inner, or default = c + w with w in inner
            return z3.Union(z3.Intersect(inner, z3.Re("")), z3.Concat(ANY, inner))
    raise Untranslatable("str expr: " + ast.dump(str_node)[:100])


def _literal_set(node):
    if isinstance(node, ast.Call) and isinstance(node.func, ast.Name) and node.func.id in ("frozenset", "set", "tuple") and len(node.args) == 1:
        node = node.args[0]
    if isinstance(node, (ast.Tuple, ast.List, ast.Set)) and all(isinstance(e, ast.Constant) and isinstance(e.value, str) for e in node.elts):
        return [e.value for e in node.elts]
    raise Untranslatable("literal set: " + ast.dump(node)[:100])


def find_ladder(fn):
    """the if/elif/else chain whose tests mention isdecimal - located in the function's current AST"""
    src = inspect.getsource(fn)
    tree = ast.parse(src)
    for n in ast.walk(tree):
        if isinstance(n, ast.If):
            chain = []
            cur = n
            while True:
                chain.append((cur.test, cur.body))
                if len(cur.orelse) == 1 and isinstance(cur.orelse[0], ast.If):
                    cur = cur.orelse[0]
                else:
                    chain.append((None, cur.orelse))
                    break
            if any("isdecimal" in ast.dump(t) for t, _ in chain if t is not None):
                return chain
    raise Untranslatable("no if/elif chain mentioning isdecimal in " + fn.__name__)


def kind_langs(chain):
    """{kind: regular language of the texts classified as that kind}, first-match semantics of the if/elif chain
    (branches guarded by `typ` - the declared-type branch - are skipped: the lemma is about the untyped ladder)"""
    FP = float_parsable()
    BOOLS = z3.Union(_lit("True"), _lit("False"))
    K = {"int": EMPTY_LANG, "bool": EMPTY_LANG, "float": EMPTY_LANG}
    taken = EMPTY_LANG
    for test, body in chain:
        if test is not None and "typ" in {n.id for n in ast.walk(test) if isinstance(n, ast.Name)}:
            continue
        here = z3.Intersect(SIGMA_STAR if test is None else lang(test), z3.Complement(taken))
        for kind, sub in _body_kinds(body, FP, BOOLS):
            K[kind] = z3.Union(K[kind], z3.Intersect(here, sub))
        if test is not None:
            taken = z3.Union(taken, lang(test))
    return K


def _body_kinds(body, FP, BOOLS):
    """[(kind, language restriction)] produced by one branch body"""
    stmts = list(body)
    if not stmts:
        return []
    if len(stmts) == 1 and isinstance(stmts[0], ast.With):
        items = stmts[0].items
        if len(items) == 1 and "suppress" in ast.dump(items[0].context_expr) and "ValueError" in ast.dump(items[0].context_expr):
            inner = stmts[0].body
            if len(inner) == 1 and isinstance(inner[0], ast.Assign):
                return _value_kinds(inner[0].value, FP, BOOLS, suppressed=True)
        raise Untranslatable("with: " + ast.dump(stmts[0])[:100])
    if len(stmts) == 1 and isinstance(stmts[0], ast.Assign) and isinstance(stmts[0].targets[0], ast.Name) and stmts[0].targets[0].id == "default":
        return _value_kinds(stmts[0].value, FP, BOOLS, suppressed=False)
    raise Untranslatable("body: " + ast.dump(stmts[0])[:100])


def _value_kinds(node, FP, BOOLS, suppressed):
    if isinstance(node, ast.IfExp):
        t = lang(node.test)
        return [(k, z3.Intersect(t, l)) for k, l in _value_kinds(node.body, FP, BOOLS, suppressed)] + \
               [(k, z3.Intersect(z3.Complement(t), l)) for k, l in _value_kinds(node.orelse, FP, BOOLS, suppressed)]
    if isinstance(node, ast.Call) and isinstance(node.func, ast.Name):
        if node.func.id == "int":
            return [("int", SIGMA_STAR)]
        if node.func.id == "literal_eval":
            return [("bool", BOOLS)]
        if node.func.id == "float":
            if not suppressed:
                raise Untranslatable("float() outside suppress(ValueError)")
            return [("float", FP)]
    raise Untranslatable("value: " + ast.dump(node)[:100])


KINDS = {0: "int", 1: "bool", 2: "float", 3: "str"}


def validate_table(n=4000, seed=0):
    """cross-check the predicate models against CPython on generated ASCII strings"""
    rnd = random.Random(seed)
    alpha = "0123456789+-._eEinfatyN \t"
    bad = []
    cases = ["", "1_0", "1__0", "_1", "1_", ".", "1.", ".5", "1e5", "1e", "e5", "inf", "-inf", "Infinity", "nan", "+nan", " 5 ", "5\n", "0x1", "1.5.2"]
    for _ in range(n):
        cases.append("".join(rnd.choice(alpha) for _ in range(rnd.randint(0, 6))))
    for s in cases:
        try:
            float(s)
            py = True
        except ValueError:
            py = False
        if bool(PY_FLOAT_RE.fullmatch(s)) != py:
            bad.append(("float", s))
        if s.isascii() and (s.isdecimal() != bool(pyre.fullmatch(r"[0-9]+", s))):
            bad.append(("isdecimal", s))
    return bad


def run_lemma(extract_default, timeout_ms=30000):
    t0 = time.time()
    try:
        chain = find_ladder(extract_default)
        K = kind_langs(chain)
    except Untranslatable as e:
        return {"status": "inconclusive", "detail": "ladder not translatable: %s" % e, "queries": 0}
    bad = validate_table()
    if bad:
        return {"status": "inconclusive", "detail": "predicate table disagrees with CPython on %r" % (bad[:5],), "queries": 0}
    v = z3.String("v")
    queries = [
        ("every str(int) rendering is classified int", L_int(), "int"),
        ("every repr(float) rendering is classified float", L_float_repr(), "float"),
        ("True / False are classified bool", L_bool(), "bool"),
    ]
    nq = 0
    for what, rendering, want in queries:
        s = z3.Solver()
        s.set("timeout", timeout_ms)
        s.add(z3.InRe(v, z3.Intersect(rendering, z3.Complement(K[want]))))
        r = s.check()
        nq += 1
        if str(r) == "sat":
            text = s.model()[v].as_string()
            return {"status": "violated", "detail": "%s: FAILS for %r" % (what, text), "cex": {"text": text, "want": want},
                    "queries": nq, "solver_s": time.time() - t0}
        if str(r) != "unsat":
            return {"status": "inconclusive", "detail": "%s: solver answered %s" % (what, r), "queries": nq, "solver_s": time.time() - t0}
    return {"status": "discharged", "detail": "ladder of %d branches translated from the current AST; %d regular-language inclusion queries over "
            "strings of any length: unsat" % (len(chain), nq), "queries": nq, "solver_s": time.time() - t0}


def replay(extract_default, cex):
    """the solver's text through the real function"""
    text, want = cex["text"], cex["want"]
    _, d = extract_default("x. Defaults to " + text)
    got = type(d).__name__
    return got != want, "extract_default('x. Defaults to %s') -> %r (%s), expected a %s" % (text, d, got, want)
