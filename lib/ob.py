"""Obligation records shared by harness modules and the runner."""
from dataclasses import dataclass, field
from typing import Any, Callable, List, Optional, Tuple


@dataclass
class Ob:
    """One CrossHair obligation: `h(params) -> bool`, `pre:` lines, `post: _`.

    body      python expression (over the params and the harness module `H`) returning bool
    witness   concrete args satisfying every pre for which body is True (vacuity guard, run
              concretely before the solver; the solver twin `post: not _` is the second guard)
    kf        [(finding_id, "python predicate over params")] - regions excluded from the query
              only while the finding is listed (and not fixed) in /verif/known_findings.json
    """

    name: str
    params: List[Tuple[str, str]]
    pre: List[str]
    body: str
    witness: Tuple
    bounds: str = ""
    kind: str = "S"  # S = values stay symbolic; F = finite solver-enumerated domain
    timeout: int = 60
    path_timeout: int = 30
    kf: List[Tuple[str, str]] = field(default_factory=list)
    funcs: List[str] = field(default_factory=list)
    twin: bool = True
    raises: str = ""  # exceptions that are legitimate outcomes (never used to hide crashes)
    # history obligations only: CrossHair re-executes every path in ONE process, so a path can fail because of state an EARLIER path left
    # behind; its arguments then do not reproduce alone.  `fallback` is an expression (evaluated untraced) that searches the obligation's
    # finite table in fresh interpreters and returns self-contained failing arguments, or None.
    fallback: str = ""
    skip_kf: List[str] = field(default_factory=list)  # not run at all while one of these findings is open (whole cell is the finding)


@dataclass
class ZOb:
    """A direct solver obligation (z3 query built from the repo's current source).

    run() -> dict(status='discharged'|'violated'|'inconclusive', detail=str, cex=Any,
                  queries=int, solver_s=float)
    replay(cex) -> (reproduced: bool, detail: str)    run on plain CPython against the real code
    """

    name: str
    run: Callable[[], dict]
    replay: Optional[Callable[[Any], Tuple[bool, str]]] = None
    bounds: str = ""
    kind: str = "Z"
    funcs: List[str] = field(default_factory=list)
    kf: List[Tuple[str, str]] = field(default_factory=list)
