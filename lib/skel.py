"""
Hand-built module skeletons (as ast.parse would produce them) whose identifiers are supplied by
the caller - in the harnesses they are *symbolic* strings, so the solver chooses which simple
names coincide across scopes.  Plus an independent resolver written directly over `ast`.

skeleton item grammar (tuples):
  ("fn",  name_slot, [arg_slot...])                 top-level function / nested function
  ("meth", name_slot, [arg_slot...], first)         method, first in {"self","cls",None}
  ("cls", name_slot, [member...])                   class; members are items
  ("ann", name_slot)                                x: int = 1
  ("asg", name_slot)                                x = 1
  ("imp",)                                          import os
  ("doc", slot)                                     a string-constant expression statement
  ("kwfn", name_slot, [arg_slot...], [kwonly_slot...])  function with keyword-only args
  ("fnb", name_slot, [arg_slot...], [body item...])     function whose body holds the given items (string constants, local classes)
"""
import ast


def _args(names, kwonly=(), first=None):
    a = [ast.arg(arg=first, annotation=None)] if first else []
    a += [ast.arg(arg=n, annotation=ast.Name("int", ast.Load())) for n in names]
    return ast.arguments(
        posonlyargs=[],
        args=a,
        vararg=None,
        kwonlyargs=[ast.arg(arg=n, annotation=ast.Name("int", ast.Load())) for n in kwonly],
        kw_defaults=[None for _ in kwonly],
        kwarg=None,
        defaults=[],
    )


def build_item(item, N):
    k = item[0]
    if k == "fn":
        return ast.FunctionDef(
            name=N[item[1]], args=_args([N[i] for i in item[2]]), body=[ast.Pass()], decorator_list=[],
            returns=None, type_comment=None, type_params=[], lineno=1, col_offset=0,
        )
    if k == "kwfn":
        return ast.FunctionDef(
            name=N[item[1]], args=_args([N[i] for i in item[2]], kwonly=[N[i] for i in item[3]]), body=[ast.Pass()],
            decorator_list=[], returns=None, type_comment=None, type_params=[], lineno=1, col_offset=0,
        )
    if k == "fnb":
        # function with a real body: item[3] is a list of body items (built recursively)
        return ast.FunctionDef(
            name=N[item[1]], args=_args([N[i] for i in item[2]]), body=[build_item(b, N) for b in item[3]] + [ast.Pass()],
            decorator_list=[], returns=None, type_comment=None, type_params=[], lineno=1, col_offset=0,
        )
    if k == "meth":
        return ast.FunctionDef(
            name=N[item[1]], args=_args([N[i] for i in item[2]], first=item[3]), body=[ast.Pass()], decorator_list=[],
            returns=None, type_comment=None, type_params=[], lineno=1, col_offset=0,
        )
    if k == "cls":
        body = [build_item(m, N) for m in item[2]] or [ast.Pass()]
        return ast.ClassDef(name=N[item[1]], bases=[], keywords=[], body=body, decorator_list=[], type_params=[],
                            lineno=1, col_offset=0)
    if k == "ann":
        return ast.AnnAssign(target=ast.Name(N[item[1]], ast.Store()), annotation=ast.Name("int", ast.Load()),
                             value=ast.Constant(value=1, kind=None), simple=1, lineno=1, col_offset=0)
    if k == "asg":
        return ast.Assign(targets=[ast.Name(N[item[1]], ast.Store())], value=ast.Constant(value=1, kind=None),
                          type_comment=None, lineno=1, col_offset=0)
    if k == "imp":
        return ast.Import(names=[ast.alias(name="os", asname=None)], lineno=1, col_offset=0)
    if k == "doc":
        return ast.Expr(value=ast.Constant(value=N[item[1]], kind=None), lineno=1, col_offset=0)
    raise ValueError(k)


def build_module(skel, N):
    return ast.Module(body=[build_item(i, N) for i in skel], type_ignores=[])


def resolve(search, mod):
    """independent resolver: every node whose qualified dotted path equals `search`"""
    out = []

    def rec(body, prefix):
        for ch in body:
            if isinstance(ch, ast.FunctionDef):
                p = prefix + [ch.name]
                if p == search:
                    out.append(ch)
                for a in ch.args.args + ch.args.kwonlyargs:
                    if p + [a.arg] == search:
                        out.append(a)
            elif isinstance(ch, ast.ClassDef):
                p = prefix + [ch.name]
                if p == search:
                    out.append(ch)
                rec(ch.body, p)
            elif isinstance(ch, ast.AnnAssign) and isinstance(ch.target, ast.Name):
                if prefix + [ch.target.id] == search:
                    out.append(ch)
            elif isinstance(ch, ast.Assign):
                for t in ch.targets:
                    if isinstance(t, ast.Name) and prefix + [t.id] == search:
                        out.append(ch)

    rec(mod.body, [])
    return out


def same_tree(a, b):
    """structural equality of two ast values (fields only; ignores positions and private attributes)"""
    if isinstance(a, ast.AST):
        if type(a) is not type(b):
            return False
        for f in a._fields:
            if f in ("kind", "type_comment", "type_params"):
                continue
            if not same_tree(getattr(a, f, None), getattr(b, f, None)):
                return False
        return True
    if isinstance(a, (list, tuple)):
        if not isinstance(b, (list, tuple)) or len(a) != len(b):
            return False
        for x, y in zip(a, b):
            if not same_tree(x, y):
                return False
        return True
    return type(a) is type(b) and a == b or (a is None and b is None)


def walk_ids(node):
    """preorder list of (id(node)) for identity-based frame checks"""
    return [id(n) for n in ast.walk(node)]
