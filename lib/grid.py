"""
Generated IR shapes ("grid"): the feature grammar behind lib/domain.SHAPES, enumerated.  SHAPES holds the hand-picked shapes whose
content holes stay symbolic; the grid is broad where SHAPES is deep: every combination of (type, default, prose) for one parameter,
every ordered pair of (type, default) combinations for two parameters, and every combination of a parameter with a return entry and a
**kwargs entry.  Rows are table-indexed by ONE symbolic int (kind F obligations, see DESIGN §3.3).

row = (summary, [(name, typ, prose, default)], returns)   - same layout as lib/domain.SHAPES values, without hole markers
"""
from collections import OrderedDict

from lib.domain import ABSENT
from doctrans.ast_utils import NoneStr

# (type, [defaults])
TD = [
    (None, [ABSENT, 3, "x"]),
    ("int", [ABSENT, 0, 3, -2, NoneStr, "```2 ** 5```"]),
    ("str", [ABSENT, "", "x", "a b", NoneStr, ", ", " x"]),
    ("bool", [ABSENT, True, False]),
    ("float", [ABSENT, 0.0, 0.5, -1.5]),
    ("Optional[int]", [ABSENT, NoneStr, 0, 3]),
    ("Optional[str]", [NoneStr, "", "x"]),
    ("Optional[bool]", [NoneStr, False, True]),
    ("List[str]", [ABSENT, NoneStr, "```['a']```"]),
    ("Union[int, str]", [ABSENT, 3, "x"]),
    ("Tuple[int, str]", [ABSENT, "```(1, 'a')```"]),
    ("Literal['np', 'tf']", [ABSENT, "np"]),
    ("np.ndarray", [ABSENT, "```np.empty(0)```"]),
]
# added later (kept out of the two-parameter product g2 to bound its size): nested generics with str defaults that are not
# identifiers, an empty-string choice, Optional of a dotted name
TD_MORE = [
    ("Optional[Literal['utf-8', 'ascii']]", [NoneStr, "utf-8"]),
    ("Optional[Union[str, int]]", [NoneStr, "1", "x.y", "no data"]),
    ("Literal['', '.bak']", [ABSENT, ".bak", ""]),
    ("Optional[np.ndarray]", [ABSENT, NoneStr]),
]
COMBOS_CORE = [(t, d) for t, ds in TD for d in ds]
COMBOS = COMBOS_CORE + [(t, d) for t, ds in TD_MORE for d in ds]
PROSE = [None, "the {n}", "the {n}.", "the {n}, in (units)", "Optional {n} value", "optional cap on the {n}"]
RETS = [
    None,
    ("int", "the result", ABSENT),
    ("int", "the result", "```a * 2```"),
    ("Optional[int]", "the result", "None"),
    ("Tuple[int, int]", "the result", "```(a, a)```"),
    ("int", None, ABSENT),
    (None, "the result", ABSENT),
]
KWARGS = [None, ("kwargs", "Optional[dict]", "extra args", NoneStr), ("loader_kwargs", "Optional[dict]", None, NoneStr)]


def _p(name, td, prose_i):
    pr = PROSE[prose_i % len(PROSE)]
    return (name, td[0], pr.format(n=name) if pr else None, td[1])


def rows():
    out = OrderedDict()
    # 1. one parameter: every (type, default) x every prose form
    for i, td in enumerate(COMBOS):
        for j in range(len(PROSE)):
            out["g1_%d_%d" % (i, j)] = ("Summary line", [_p("a", td, j)], None)
    # 2. two parameters: every ordered pair of (type, default) combinations; prose forms rotate so that every pair of prose forms occurs
    n = 0
    for i, ta in enumerate(COMBOS_CORE):
        for j, tb in enumerate(COMBOS_CORE):
            out["g2_%d_%d" % (i, j)] = ("Summary line", [_p("a", ta, 1 + n % 3 if (n // 3) % 4 else 0), _p("b", tb, (n // 3) % 4)], None)
            n += 1
    # 3. parameter x return entry x kwargs
    for i, td in enumerate(COMBOS):
        for r, ret in enumerate(RETS):
            for k, kw in enumerate(KWARGS):
                if r == 0 and k == 0:
                    continue
                ps = [_p("a", td, 1 + (i + r) % 3)] + ([kw] if kw else [])
                out["g3_%d_%d_%d" % (i, r, k)] = ("Summary line", ps, ret)
    # 4. no parameter at all x return entry x kwargs
    for r, ret in enumerate(RETS):
        for k, kw in enumerate(KWARGS):
            out["g4_%d_%d" % (r, k)] = ("Summary line", [kw] if kw else [], ret)
    # 5. three parameters (+ optionally a fourth, keyword-style one): every mask of "has prose" x every mask of "has default"
    for pm in range(8):
        for dm in range(8):
            for extra in (0, 1):
                ps = []
                for j, (n, t, d) in enumerate((("a", "int", 5), ("b", "str", "x"), ("c", "bool", True))):
                    ps.append((n, t, ("the %s" % n) if (pm >> j) & 1 else None, d if (dm >> j) & 1 else ABSENT))
                if extra:
                    ps.append(("d", "float", None if pm & 1 else "the d", ABSENT if dm & 2 else 0.5))
                out["g5_%d_%d_%d" % (pm, dm, extra)] = ("Summary line", ps, None)
    # 6. parameter names that contain one another (suffix / prefix), adjacent, in both orders
    for k, (n1, n2) in enumerate((("size", "batch_size"), ("batch_size", "size"), ("x", "max_x"), ("arg", "my_arg"), ("path", "path_prefix"),
                                  ("a", "aa"))):
        for v, ((t1, d1), (t2, d2)) in enumerate(((("int", 5), ("int", ABSENT)), (("str", ABSENT), ("int", 3)), (("int", ABSENT), ("str", ABSENT)))):
            out["g6_%d_%d" % (k, v)] = ("Summary line", [("p", "str", "the p", ABSENT), (n1, t1, "the %s" % n1, d1), (n2, t2, "the %s" % n2, d2),
                                                         ("q", "bool", "the q", True)], None)
    return out


ROWS = rows()
IDS = list(ROWS)


def select(tier, salt=0):
    """quick: all one-parameter rows, a third of the rest (deterministic stride); thorough: everything"""
    if tier != "quick":
        return IDS
    return [r for n, r in enumerate(IDS) if r.startswith(("g1_", "g4_")) or (n + salt) % 5 == 0 or (r.startswith("g5_") and (n + salt) % 2 == 0) or r.startswith("g6_")]


ARGPARSE_TYPES = ("int", "str", "bool", "float", "Optional[int]", "Optional[str]", "Optional[bool]", "List[str]", "Literal['np', 'tf']", "Optional[dict]",
                  "Literal['', '.bak']", "Optional[Literal['utf-8', 'ascii']]")


def argparse_expressible(rid):
    """C04's quantifier: scalars, Optional/List/Literal of scalars, kwargs-named dict parameter; only a return entry with a default"""
    _, params, ret = ROWS[rid]
    return all(t in ARGPARSE_TYPES for _, t, _, _ in params)
