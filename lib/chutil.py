"""Helpers that behave identically under CrossHair tracing and on plain CPython (replay)."""
import contextlib

try:
    from crosshair.core import deep_realize as _deep_realize
    from crosshair.tracers import NoTracing, is_tracing
except Exception:  # pragma: no cover
    _deep_realize = None
    is_tracing = lambda: False  # noqa: E731


def realize(x):
    """concrete value of x; under CrossHair this forks the path per value (solver-driven enumeration of a finite domain)"""
    if _deep_realize is not None and is_tracing():
        with NoTracing():
            return _deep_realize(x)
    return x


@contextlib.contextmanager
def untraced():
    """run a block at full speed (no symbolic tracing); only legal on already-realised values"""
    if _deep_realize is not None and is_tracing():
        with NoTracing():
            yield
    else:
        yield


def fresh_env(seed="0"):
    """environment for a fresh interpreter that analyses the same tree as this process (honours the VERIF_REPO development aid)"""
    import os

    env = {"PYTHONHASHSEED": str(seed), "PATH": "/usr/bin:/bin", "PYTHONDONTWRITEBYTECODE": "1"}
    if os.environ.get("VERIF_REPO"):
        env["VERIF_REPO"] = os.environ["VERIF_REPO"]
        env["PYTHONPATH"] = os.environ["VERIF_REPO"]
    return env
