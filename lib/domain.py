"""
IR domain D for the round-trip family (C01-C06, C08, C13, C18): shape catalogue (concrete), content
holes (symbolic), the seven representation kinds, and the comparators of DESIGN.md §3.2.
"""
import ast
from collections import OrderedDict
from copy import deepcopy

from lib import prelude  # noqa: F401

from doctrans import emit, parse
from doctrans.ast_utils import NoneStr

KINDS = ("rest", "numpydoc", "google", "class", "function", "method", "argparse")
DOC_KINDS = ("rest", "numpydoc", "google")

# hole markers
P, D, S, B = "<P>", "<D>", "<S>", "<B>"
ABSENT = "<absent>"

# shape = (summary, [(name, typ|None, prose|None|P, default|ABSENT|D|S|B)], returns|None)
# returns = (typ|None, prose|None|P, default|ABSENT)
SHAPES = OrderedDict(
    [
        ("p1_int", ("Summary line", [("a", "int", P, ABSENT)], None)),
        ("p1_int_d", ("Summary line", [("a", "int", P, D)], None)),
        ("p1_untyped_d", ("Summary line", [("a", None, P, D)], None)),
        ("p1_str_s", ("Summary line", [("a", "str", P, S)], None)),
        ("p1_bool_b", ("Summary line", [("a", "bool", "the flag", B)], None)),
        ("p1_float", ("Summary line", [("a", "float", P, 0.5)], None)),
        ("p1_optint_none", ("Summary line", [("a", "Optional[int]", P, NoneStr)], None)),
        ("p1_optstr_s", ("Summary line", [("a", "Optional[str]", "the a", S)], None)),
        ("p1_optint_d", ("Summary line", [("a", "Optional[int]", P, D)], None)),
        ("p1_optbool_f", ("Summary line", [("a", "Optional[bool]", P, False)], None)),
        ("p1_optfloat_z", ("Summary line", [("a", "Optional[float]", P, 0.0)], None)),
        ("p1_unionnum_d", ("Summary line", [("a", "Union[int, float]", P, D)], None)),
        ("p2_d_then_optd", ("Summary line", [("a", "int", "the a", 7), ("b", "Optional[int]", P, D)], None)),
        ("p1_list", ("Summary line", [("a", "List[str]", P, ABSENT)], None)),
        ("p1_literal", ("Summary line", [("a", "Literal['np', 'tf']", P, "np")], None)),
        ("p1_union", ("Summary line", [("a", "Union[int, str]", P, ABSENT)], None)),
        ("p1_dotted", ("Summary line", [("a", "np.ndarray", P, ABSENT)], None)),
        ("p1_code", ("Summary line", [("a", "Tuple[int, str]", P, "```(np.empty(0), np.empty(0))```")], None)),
        ("p2_d_then_plain", ("Summary line", [("a", "int", "the a", D), ("b", "str", P, ABSENT)], None)),
        ("p2_plain_then_d", ("Summary line", [("a", "str", P, ABSENT), ("b", "int", "the b", D)], None)),
        ("p2_both_d", ("Summary line", [("a", "int", P, D), ("b", "str", "the b", "x")], None)),
        ("p2_noprose", ("Summary line", [("a", "int", None, D), ("b", "str", P, ABSENT)], None)),
        ("p2_plain_then_noprose", ("Summary line", [("a", "str", P, ABSENT), ("b", "int", None, ABSENT)], None)),
        ("p3_two_noprose", ("Summary line", [("a", "str", P, ABSENT), ("width", "int", None, ABSENT), ("height", "int", None, ABSENT), ("depth", "int", None, ABSENT)], None)),
        ("p1_code2", ("Summary line", [("a", "np.ndarray", P, "```(np.ones(3) * 2).astype(int)```")], None)),
        ("p1_int_code", ("Summary line", [("a", "int", P, "```2 ** 5```")], None)),
        ("p1_ret_none", ("Summary line", [("a", "int", P, D)], ("Optional[int]", "the result", "None"))),
        ("p1_ret_code_scalar", ("Summary line", [("a", "int", P, D)], ("float", "the result", "```a + 0.5```"))),
        ("p1_ret", ("Summary line", [("a", "int", P, ABSENT)], ("bool", "the result", ABSENT))),
        ("p1_ret_d", ("Summary line", [("a", "int", P, D)], ("Tuple[int, int]", "the result", "```(a, a)```"))),
        ("p0", ("Summary line", [], None)),
        ("ret_only", ("Summary line", [], ("int", P, ABSENT))),
        ("p1_kwargs", ("Summary line", [("a", "int", P, D), ("data_loader_kwargs", "Optional[dict]", "extra args", NoneStr)], None)),
        ("p0_kwargs", ("Summary line", [("data_loader_kwargs", "Optional[dict]", P, NoneStr)], None)),
        ("p1_noprose_kwargs", ("Summary line", [("a", "int", None, D), ("data_loader_kwargs", "Optional[dict]", P, NoneStr)], None)),
        ("p3_mixed", ("Summary line", [("a", "str", P, ABSENT), ("b", "int", "the b", D), ("c", "bool", "the c", True)], ("str", "the result", ABSENT))),
        ("sum2", ("Summary line\nsecond line", [("a", "int", P, ABSENT)], None)),
    ]
)


def holes_of(shape_id):
    summary, params, ret = SHAPES[shape_id]
    hs = []
    for _, _, doc, dflt in params:
        for v in (doc, dflt):
            if v in (P, D, S, B) and v not in hs:
                hs.append(v)
    if ret:
        for v in ret[1:]:
            if v in (P, D, S, B) and v not in hs:
                hs.append(v)
    return hs


def fixlen(x, maxlen=8):
    """Rebuild a symbolic str as a string of *concrete length* (one path per length).  CrossHair keeps the length of a
    symbolic str symbolic even when constraints pin it; every later index / slice / compare then costs solver calls
    (measured: 34 s per path vs 1.1 s after this step).  Pure engineering: the value is unchanged."""
    if not isinstance(x, str):
        return x
    for n in range(maxlen + 1):
        if len(x) == n:
            return "".join([x[i] for i in range(n)])
    return x


def shape(shape_id):
    if shape_id in SHAPES:
        return SHAPES[shape_id]
    from lib.grid import ROWS  # generated shapes (no content holes)

    return ROWS[shape_id]


def mk_ir(shape_id, p=None, d=None, s=None, b=None):
    summary, params, ret = shape(shape_id)
    p, s = fixlen(p), fixlen(s)
    sub = {P: p, D: d, S: s, B: b}

    def f(v):
        return sub[v] if isinstance(v, str) and v in sub else v

    ps = OrderedDict()
    for name, typ, doc, dflt in params:
        e = {}
        if doc is not None:
            e["doc"] = f(doc)
        if typ is not None:
            e["typ"] = typ
        if not (isinstance(dflt, str) and dflt == ABSENT):
            e["default"] = f(dflt)
        ps[name] = e
    r = None
    if ret is not None:
        e = {}
        if ret[0] is not None:
            e["typ"] = ret[0]
        if ret[1] is not None:
            e["doc"] = f(ret[1])
        if not (isinstance(ret[2], str) and ret[2] == ABSENT):
            e["default"] = f(ret[2])
        r = OrderedDict((("return_type", e),))
    return {"name": None, "type": "static", "doc": summary, "params": ps, "returns": r}


# ---------------------------------------------------------------- the seven conversions
def emit_kind(ir, kind, opts=None):
    """emit a *fresh copy* of ir as `kind`; returns the artefact (str for docstrings, ast node otherwise)"""
    o = dict(opts or {})
    ir = deepcopy(ir)
    if kind in DOC_KINDS:
        return emit.docstring(ir, docstring_format=kind, word_wrap=o.get("word_wrap", False),
                              emit_default_doc=o.get("emit_default_doc", True))
    if kind == "class":
        return emit.class_(ir, class_name="K", word_wrap=o.get("word_wrap", False),
                           emit_default_doc=o.get("emit_default_doc", True))
    if kind in ("function", "method"):
        ft = "static" if kind == "function" else o.get("ftype", "self")
        if o.get("ftype_from_ir"):
            ir["type"] = ft  # the documented Optional form: function_type=None means "take it from the description"
            ft = None
        return emit.function(
            ir, function_name="f", function_type=ft,
            word_wrap=o.get("word_wrap", False), emit_default_doc=o.get("emit_default_doc", True),
            indent_level=o.get("indent_level", 1), emit_separating_tab=o.get("sep_tab", True),
            inline_types=o.get("inline_types", True), emit_as_kwonlyargs=o.get("kwonly", False),
        )
    if kind == "argparse":
        return emit.argparse_function(ir, function_name="set_cli_args", word_wrap=o.get("word_wrap", False),
                                      emit_default_doc=o.get("emit_default_doc", True))
    raise ValueError(kind)


def parse_kind(art, kind, opts=None):
    o = dict(opts or {})
    if kind in DOC_KINDS:
        # "parse_default_doc": the parser's own flag (keep / strip the default sentence in the prose) when it differs from the emitter's
        return parse.docstring(art, emit_default_doc=o.get("parse_default_doc", o.get("emit_default_doc", True)))
    if kind == "class":
        return parse.class_(art)
    if kind in ("function", "method"):
        return parse.function(art)
    if kind == "argparse":
        return parse.argparse_ast(art)
    raise ValueError(kind)


def via_text(node):
    """the same artefact after unparse + re-parse (what a file round trip does)"""
    return ast.parse(ast.unparse(ast.fix_missing_locations(node))).body[0]


# ---------------------------------------------------------------- comparators (DESIGN §3.2)
ZERO = {"int": 0, "float": 0.0, "str": "", "bool": False, "complex": 0j}


def _is_none(v):
    return v is None or (isinstance(v, str) and (v == "None" or v == NoneStr))


def same_default(got, want):
    """explicit default preserved: equal value AND same Python type (I2: None-equivalence)"""
    if _is_none(want):
        return _is_none(got)
    if type(got) is not type(want):
        return False
    if isinstance(want, str) and len(want) > 6 and want.startswith("```") and want.endswith("```"):
        # I5: back-tick quoting marks a code expression and is presentation only: ```X``` and X are the same expression
        if got.strip("`") == want.strip("`"):
            return True
        try:  # ... and modulo redundant outer parentheses (paren_wrap_code mirrors the built-in unparser): same expression tree
            return ast.dump(ast.parse(got.strip("`"), mode="eval")) == ast.dump(ast.parse(want.strip("`"), mode="eval"))
        except SyntaxError:
            return False
    return got == want


ANN = " Defaults to "


def strip_sentence(doc):
    """prose without a trailing default sentence (D excludes prose that contains an announcement itself)"""
    i = doc.find(ANN)
    return doc if i == -1 else doc[:i]


def prose_code(got, want, has_default, ws=False):
    """'' if the prose agrees (I1: a default sentence terminates prose not ending in '.'/','; I4: whitespace for C18)"""
    if want is None:
        return "" if (got is None or got == "" or strip_sentence(got) in ("", ".")) else "doc-invented"
    if got is None:
        return "doc-lost"
    g = strip_sentence(got)
    if ws:
        g, want = " ".join(g.split()), " ".join(want.split())
    if g == want:
        return ""
    if has_default and want[-1] not in ".," and g == want + ".":
        return ""
    return "doc"


def entry_diffs(got, want, kind, defaults_on, ws=False, is_return=False, name=""):
    """all differences between one parsed-back param/return entry and its source entry, as codes"""
    out = []
    w_has_d = "default" in want
    wt, gt = want.get("typ"), got.get("typ")
    if kind == "argparse" and name.endswith("kwargs"):
        wt = "Optional[dict]"
    if wt is None:
        # an untyped parameter may acquire the type of its explicit default (documented inference), nothing else
        if gt is not None and not (w_has_d and not _is_none(want["default"]) and gt == type(want["default"]).__name__):
            out.append("typ-invented")
    elif gt is None:
        out.append("typ-lost")
    elif gt != wt:
        out.append("typ-changed")
    # (a default acquired on the way - the caller decides whether that is permitted - is announced by a sentence like any other: I1)
    c = prose_code(got.get("doc"), want.get("doc"), (w_has_d or "default" in got) and defaults_on, ws)
    if c:
        out.append(c)
    if w_has_d and (defaults_on or kind not in DOC_KINDS):
        if "default" not in got:
            out.append("default-lost")
        elif not same_default(got["default"], want["default"]):
            out.append("default-type" if got["default"] == want["default"] else "default-value")
    elif not w_has_d and "default" in got:
        g = got["default"]
        base = want.get("typ") or ""
        if kind == "argparse" and isinstance(g, str) and g == "":
            out.append("default-invented-zero")  # str is argparse's fallback type; '' its zero value
        elif _is_none(g):
            out.append("default-invented-none")
        elif base in ZERO and type(g) is type(ZERO[base]) and g == ZERO[base]:
            out.append("default-invented-zero")
        elif isinstance(g, str) and g == "":
            out.append("default-invented-empty-str")  # argparse's zero value for a type it reads as str, seen after a later hop
        else:
            out.append("default-invented-other")
    return out


def iface_diffs(got, want, kind, defaults_on=True, ws=False):
    """list of (where, code) - every way the parsed-back IR `got` differs from `want`"""
    out = []
    gk, wk = list(got["params"].keys()), list(want["params"].keys())
    if gk != wk:
        if sorted(gk) == sorted(wk):
            out.append(("params", "order"))
        else:
            out.append(("params", "names"))
    for n in wk:
        if n in got["params"]:
            for c in entry_diffs(got["params"][n], want["params"][n], kind, defaults_on, ws, name=n):
                out.append((n, c))
    wr = (want.get("returns") or {}).get("return_type")
    gr = (got.get("returns") or {}).get("return_type")
    if wr is None:
        if gr:
            out.append(("returns", "ret-invented"))
    elif gr is None:
        out.append(("returns", "ret-lost"))
    else:
        for c in entry_diffs(gr, wr, kind, defaults_on, ws, is_return=True, name="return_type"):
            out.append(("returns", c))
    gd, wd = got.get("doc") or "", want.get("doc") or ""
    if (" ".join(gd.split()) if ws else gd.strip()) != (" ".join(wd.split()) if ws else wd.strip()):
        out.append(("summary", "summary"))
    return out


def roundtrip(ir, kind, opts=None, text=False):
    art = emit_kind(ir, kind, opts)
    if text and kind not in DOC_KINDS:
        art = via_text(art)
    return parse_kind(art, kind, opts)
